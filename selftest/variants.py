"""Seeded variants for the checker self-test (see harness.py).

Every `old` string must occur exactly once in the named file of the pinned
tree.  "fire" variants are realistic regressions that still compile and pass
the pinned tests; "silent" variants are behaviour-preserving refactorings.
"""

VARIANTS = []


def V(prop, rule, vid, file, old, new, expect="fire", construct=""):
    VARIANTS.append(dict(property=prop, rule=rule, id=vid, file=file, old=old, new=new,
                         expect=expect, construct=construct))


# ---------------------------------------------------------------------------
# C04
# ---------------------------------------------------------------------------
V("C04", "C04.R1", "c04-len-long-c-only", "shroud/wrapc.py",
  'append_format(proto_list, "int {c_var_len}", fmt)',
  'append_format(proto_list, "long {c_var_len}", fmt)', "fire", "buf_arg=len")
V("C04", "C04.R1", "c04-size-kind-impl", "shroud/wrapf.py",
  'append_format(arg_c_call, "size({f_var}, kind=C_LONG)", fmt)',
  'append_format(arg_c_call, "size({f_var}, kind=C_INT)", fmt)', "fire", "buf_arg=size")
V("C04", "C04.R1", "c04-trim-by-reference", "shroud/wrapf.py",
  '''            elif buf_arg == "len_trim":
                arg_c_names.append(buf_arg_name)
                arg_c_decl.append(
                    "integer(C_INT), value, intent(IN) :: %s" % buf_arg_name''',
  '''            elif buf_arg == "len_trim":
                arg_c_names.append(buf_arg_name)
                arg_c_decl.append(
                    "integer(C_INT), intent(IN) :: %s" % buf_arg_name''', "fire", "buf_arg=len_trim")
V("C04", "C04.R1", "c04-context-name-dropped", "shroud/wrapf.py",
  '''                    intent = "INOUT"
                arg_c_names.append(buf_arg_name)''',
  '''                    intent = "INOUT"
                    arg_c_names.append(buf_arg_name)''', "fire", "buf_arg=context")
V("C04", "C04.R1", "c04-new-key-one-sibling", "shroud/wrapc.py",
  '''            elif buf_arg == "len":
                append_format(proto_list, "int {c_var_len}", fmt)''',
  '''            elif buf_arg == "len":
                append_format(proto_list, "int {c_var_len}", fmt)
            elif buf_arg == "stride":
                append_format(proto_list, "long {c_var_size}", fmt)''', "fire", "buf_arg=stride")
V("C04", "C04.R1", "c04-silent-reorder-branches", "shroud/wrapc.py",
  '''            elif buf_arg == "len_trim":
                append_format(proto_list, "int {c_var_trim}", fmt)
            elif buf_arg == "len":
                append_format(proto_list, "int {c_var_len}", fmt)''',
  '''            elif buf_arg == "len":
                append_format(proto_list, "int {c_var_len}", fmt)
            elif buf_arg == "len_trim":
                append_format(proto_list, "int {c_var_trim}", fmt)''', "silent")
V("C04", "C04.R1", "c04-silent-rename-list", "shroud/wrapc.py",
  '''            if buf_arg == "size":
                append_format(proto_list, "long {c_var_size}", fmt)''',
  '''            if buf_arg == "size":
                proto_list.append(wformat("long {c_var_size}", fmt))''', "silent")
V("C04", "C04.R2", "c04-argdecl-value-dropped", "shroud/statements.py",
  '"character(kind=C_CHAR), value, intent(IN) :: {c_var}"',
  '"character(kind=C_CHAR), intent(IN) :: {c_var}"', "fire", "c_char_scalar_in")
V("C04", "C04.R2", "c04-argdecl-module-dropped", "shroud/statements.py",
  '''        f_arg_decl=[
            "type(C_PTR), intent(IN), value :: {c_var}",
        ],
        f_module=dict(iso_c_binding=["C_PTR"]),''',
  '''        f_arg_decl=[
            "type(C_PTR), intent(IN), value :: {c_var}",
        ],''', "fire", "c_native_**_in")
V("C04", "C04.R3", "c04-struct-field-swap-fortran", "shroud/whelpers.py",
  '''! bytes-per-item or character len of data in cxx
integer(C_SIZE_T) :: elem_len = 0_C_SIZE_T
! size of data in cxx
integer(C_SIZE_T) :: size = 0_C_SIZE_T''',
  '''! size of data in cxx
integer(C_SIZE_T) :: size = 0_C_SIZE_T
! bytes-per-item or character len of data in cxx
integer(C_SIZE_T) :: elem_len = 0_C_SIZE_T''', "fire", "array_context")
V("C04", "C04.R3", "c04-struct-rank-long", "shroud/whelpers.py",
  "int rank;        /* number of dimensions, 0=scalar */",
  "long rank;        /* number of dimensions, 0=scalar */", "fire", "array_context")
V("C04", "C04.R3", "c04-silent-struct-comment", "shroud/whelpers.py",
  "int rank;        /* number of dimensions, 0=scalar */",
  "int rank;        /* rank, 0=scalar */", "silent")
V("C04", "C04.R4", "c04-shtype-bool-fortran", "shroud/whelpers.py",
  "    SH_TYPE_BOOL      = 28, &", "    SH_TYPE_BOOL      = 29, &", "fire", "SH_TYPE_BOOL")
V("C04", "C04.R4", "c04-shtype-missing", "shroud/typemap.py",
  'sh_type="SH_TYPE_DOUBLE_COMPLEX"', 'sh_type="SH_TYPE_DCOMPLEX"', "fire", "double_complex")
V("C04", "C04.R5", "c04-copy-string-extra-arg", "shroud/whelpers.py",
  "void {C_prefix}ShroudCopyStringAndFree({C_array_type} *data, char *c_var, size_t c_var_len) {{+",
  "void {C_prefix}ShroudCopyStringAndFree({C_array_type} *data, char *c_var, size_t c_var_len, int pad) {{+",
  "fire", "copy_string")
V("C04", "C04.R5", "c04-copy-array-size-int", "shroud/whelpers.py",
  '''{f_type}, intent(OUT) :: c_var(*)
integer(C_SIZE_T), value :: c_var_size''',
  '''{f_type}, intent(OUT) :: c_var(*)
integer(C_INT), value :: c_var_size''', "fire", "copy_array")
V("C04", "C04.R6", "c04-long-kind", "shroud/typemap.py",
  '''            cxx_type="long",
            f_cast="int({f_var}, C_LONG)",
            f_type="integer(C_LONG)",''',
  '''            cxx_type="long",
            f_cast="int({f_var}, C_LONG)",
            f_type="integer(C_INT)",''', "fire", "typemap[long]")
V("C04", "C04.R7", "c04-unknown-buf-arg", "shroud/statements.py",
  '''        name="c_native_**_out_buf",
        buf_args=["context"],''',
  '''        name="c_native_**_out_buf",
        buf_args=["cdesc"],''', "fire", "c_native_**_out_buf")

# ---------------------------------------------------------------------------
# C05
# ---------------------------------------------------------------------------
V("C05", "C05.R1", "c05-field-typo-table", "shroud/statements.py",
  '"{c_var_context}->size = 1;",\n            "{c_var_context}->rank = 0;",\n        ],\n    ),\n\n    dict(\n        # char *func() +deref(raw)',
  '"{c_var_contxt}->size = 1;",\n            "{c_var_context}->rank = 0;",\n        ],\n    ),\n\n    dict(\n        # char *func() +deref(raw)',
  "fire", "c_char_*_result_buf_allocatable")
V("C05", "C05.R1", "c05-field-def-removed", "shroud/statements.py",
  '''    if attrs["len_trim"]:
        fmt.c_var_trim = attrs["len_trim"]''',
  '''    if attrs["len_trim"]:
        pass''', "fire", "")
V("C05", "C05.R1", "c05-inline-field-typo", "shroud/wrapc.py",
  'append_format(proto_list, "int {c_var_trim}", fmt)',
  'append_format(proto_list, "int {c_var_ltrim}", fmt)', "fire", "build_proto_list")
V("C05", "C05.R2", "c05-helper-dropped", "shroud/statements.py",
  '''        name="c_char_*_result_buf",
        buf_args=["arg", "len"],
        c_helper="ShroudStrCopy",''',
  '''        name="c_char_*_result_buf",
        buf_args=["arg", "len"],''', "fire", "c_char_*_result_buf")
V("C05", "C05.R2", "c05-silent-helper-reorder", "shroud/statements.py",
  'cxx_local_var="pointer",\n        c_helper="ShroudStrAlloc ShroudStrCopy ShroudStrFree",',
  'cxx_local_var="pointer",\n        c_helper="ShroudStrFree ShroudStrAlloc ShroudStrCopy",', "silent")
V("C05", "C05.R3", "c05-header-dropped", "shroud/statements.py",
  '''        name="c_char_*_result_buf_allocatable",
        buf_args=["context"],
        c_impl_header=["<string.h>"],
        cxx_impl_header=["<cstring>"],''',
  '''        name="c_char_*_result_buf_allocatable",
        buf_args=["context"],
        c_impl_header=["<string.h>"],''', "fire", "c_char_*_result_buf_allocatable")
V("C05", "C05.R3", "c05-helper-include-dropped", "shroud/whelpers.py",
  '''    ShroudStrBlankFill=dict(
        c_include=["<string.h>"],''',
  '''    ShroudStrBlankFill=dict(
        c_include=["<stdlib.h>"],''', "fire", "ShroudStrBlankFill")
V("C05", "C05.R4", "c05-fmodule-dropped", "shroud/statements.py",
  '''        name="f_native_*_result_pointer",
        f_module=dict(iso_c_binding=["C_PTR", "c_f_pointer"]),''',
  '''        name="f_native_*_result_pointer",
        f_module=dict(iso_c_binding=["C_PTR"]),''', "fire", "f_native_*_result_pointer")
V("C05", "C05.R5", "c05-dependent-helper-typo", "shroud/whelpers.py",
  '''        dependent_helpers=["ShroudLenTrim"],
    ),

    ShroudStrFree=dict(''',
  '''        dependent_helpers=["ShroudLenTrimm"],
    ),

    ShroudStrFree=dict(''', "fire", "ShroudStrAlloc")
V("C05", "C05.R5", "c05-copy-array-cxx-only", "shroud/whelpers.py",
  '''        # via an interface for each cxx_type.
        source=wformat(''',
  '''        # via an interface for each cxx_type.
        cxx_source=wformat(''', "fire", "copy_array")
V("C03", "C03.R13", "c03-shadow-inout-without-object-created", "shroud/wrapp.py",
  """            "\\t {py_var} ? {py_var}->{PY_type_obj} : {nullptr};"
        ],
        object_created=True,
    ),
    dict(
        name="py_shadow_*_out",""",
  """            "\\t {py_var} ? {py_var}->{PY_type_obj} : {nullptr};"
        ],
    ),
    dict(
        name="py_shadow_*_out",""", "fire", "py_shadow_*_inout]:object_created")
V("C03", "C03.R13", "c03-shadow-ref-inout-removed", "shroud/wrapp.py",
  'name="py_shadow_&_inout",', 'name="py_shadow_&_inoutx",', "fire", "py_shadow_&_inout]:lookup")
V("C03", "C03.R13", "c03-borrowed-object-returned-without-incref", "shroud/wrapp.py",
  'post_call=[wformat("Py_INCREF({py_var});", fmt_arg)]))', 'post_call=[]))', "fire", "borrowed-return")
V("C03", "C03.R13", "c03-incref-in-the-entry-instead", "shroud/wrapp.py",
  'post_call=[wformat("Py_INCREF({py_var});", fmt_arg)]))', 'post_call=[]))', "fire", "py_struct_*_inout_class]:borrowed-return")
V("C05", "C05.R2", "c05-py-helper-hard-coded", "shroud/wrapp.py",
  '''        name="py_vector_result_list",
        c_helper="to_PyList_vector_{flat_T}",''',
  '''        name="py_vector_result_list",''', "fire", "py_vector_result_list")
V("C05", "C05.R2", "c05-py-helper-index-beyond-list", "shroud/wrapp.py",
  '            "{py_var} = {hnamefunc1}\\t({cxx_var},\\t {size_var});",',
  '            "{py_var} = {hnamefunc2}\\t({cxx_var},\\t {size_var});",', "fire", "hnamefunc2")
V("C03", "C03.R14", "c03-charptr-converter-returns-minus-one", "shroud/whelpers.py",
  """must be iterable",\\t value->name);
return 0;
-}}
Py_ssize_t size = PySequence_Fast_GET_SIZE(seq);
char **in""", """must be iterable",\\t value->name);
return -1;
-}}
Py_ssize_t size = PySequence_Fast_GET_SIZE(seq);
char **in""", "fire", "get_from_object_charptr")
V("C05", "C05.R18", "c05-lua-header-includes-inside-extern-c", "shroud/wrapl.py",
  """        header_impl.write_headers(output)

        util.extern_C(output, "begin")
        output.append('#include "lua.h"')""",
  """        util.extern_C(output, "begin")
        header_impl.write_headers(output)
        output.append('#include "lua.h"')""", "fire", "Wrapl.write_header:write_headers")
V("C03", "C03.R3", "c03-ssize-t-clean-dropped", "shroud/wrapp.py",
  '        output.append("#define PY_SSIZE_T_CLEAN")\n', '', "fire", "PY_SSIZE_T_CLEAN")
V("C03", "C03.R3", "c03-ssize-t-clean-after-include", "shroud/wrapp.py",
  '        output.append("#define PY_SSIZE_T_CLEAN")\n        output.append("#include <Python.h>")',
  '        output.append("#include <Python.h>")\n        output.append("#define PY_SSIZE_T_CLEAN")', "fire", "PY_SSIZE_T_CLEAN")
V("C03", "C03.R3", "c03-ssize-t-clean-same-string", "shroud/wrapp.py",
  '        output.append("#define PY_SSIZE_T_CLEAN")\n        output.append("#include <Python.h>")',
  '        output.append("#define PY_SSIZE_T_CLEAN\\n#include <Python.h>")', "silent", "")
V("C06", "C06.R11", "c06-created-object-built-with-O", "shroud/wrapp.py",
  '            build_format = "N"\n            vargs = fmt.py_var', '            build_format = "O"\n            vargs = fmt.py_var',
  "fire", "intent_out:object_created:build_format")
V("C06", "C06.R11", "c06-borrowed-object-built-with-N", "shroud/wrapp.py",
  'ttt = ttt._replace(format="O", blk0=util.Scope(', 'ttt = ttt._replace(blk0=util.Scope(', "fire", "borrowed-object:build_format")
V("C18", "C18.R6", "c18-method-arguments-from-slot-1", "shroud/wrapl.py",
  "        if cls and not is_ctor:\n            LUA_index = 2\n        else:\n            LUA_index = 1",
  "        LUA_index = 1", "fire", "first-argument-slot")
V("C18", "C18.R6", "c18-method-count-includes-object", "shroud/wrapl.py",
  '"int SH_nargs = lua_gettop({LUA_state_var}) - 1;", fmt', '"int SH_nargs = lua_gettop({LUA_state_var});", fmt', "fire", "count-excludes-object")
V("C18", "C18.R6", "c18-type-tests-not-shifted", "shroud/wrapl.py",
  "fmt.iarg = iarg + this_offset", "fmt.iarg = iarg", "fire", "type-test-slot")
V("C18", "C18.R6", "c18-ctor-shifted-too", "shroud/wrapl.py",
  "            if cls and not is_ctor:\n                this_offset = 1", "            if cls:\n                this_offset = 1", "fire", "wrap_function")
V("C04", "C04.R14", "c04-callback-result-from-enclosing-function", "shroud/wrapf.py",
  """                        rtypemap = arg.typemap
""", """                        rtypemap = ast.typemap
""", "fire", "dump_abstract_interfaces:decl")
V("C04", "C04.R14", "c04-callback-result-kind-not-imported", "shroud/wrapf.py",
  """                        self.update_f_module(
                            modules, imports,
                            rtypemap.f_c_module or rtypemap.f_module)
""", "", "fire", "result-import")
V("C16", "C16.R1", "c16-description-unsplit-without-trailing-newline", "shroud/util.py",
  """        lines = str(text).expandtabs().split("\\n")
        if lines[-1] == "" and (len(lines) > 1 or not tag):
            lines.pop()  # remove trailing newline
""", """        desc = str(text).expandtabs()
        if desc.endswith("\\n"):
            lines = desc.split("\\n")
            lines.pop()  # remove trailing newline
        else:
            lines = [desc]
""", "fire", "-lines")
V("C17", "C17.R11", "c17-parameter-list-accepts-trailing-comma", "shroud/declast.py",
  """                if self.token.typ == "RPAREN":
                    self.error_msg("Expected a parameter after ',', found {}",
                                   self.token.typ)
""", "", "fire", "parameter_list:separator-loop")
V("C17", "C17.R11", "c17-initializer-returns-none", "shroud/declast.py",
  """            self.error_msg("Expected a value after '=', found {}",
                           self.token.typ)
        self.exit("initializer")""", """            value = None
        self.exit("initializer")""", "fire", "initializer:no-value")
V("C17", "C17.R12", "c17-language-not-checked", "shroud/ast.py",
  """        if not isinstance(language, str):
            raise RuntimeError("language must be 'c' or 'c++'")
""", "", "fire", "language:str")
V("C17", "C17.R12", "c17-declaration-item-not-checked", "shroud/ast.py",
  """        if not isinstance(subnode, dict):
            raise RuntimeError(
                "declarations must be""", """        if False:
            raise RuntimeError(
                "declarations must be""", "fire", "subnode:dict")
V("C17", "C17.R12", "c17-rank-lower-bound-dropped", "shroud/generate.py",
  """            if attrs["rank"] < 0 or attrs["rank"] > 7:""", """            if attrs["rank"] > 7:""", "fire", "range[0-7]")
V("C17", "C17.R12", "c17-wrap-as-unchecked", "shroud/ast.py",
  """        if self.wrap_as not in ["class", "struct"]:""", """        if False:""", "fire", "wrap_as")
V("C17", "C17.R12", "c17-typemap-header-isinstance-equivalent", "shroud/typemap.py",
  """                elif isinstance(value, str):
                    setattr(self, key, value.split())""", """                elif isinstance(value, (str,)):
                    setattr(self, key, value.split())""", "silent", "")
V("C17", "C17.R11", "c17-typedef-name-not-required", "shroud/ast.py",
  """        if name is None:
            raise RuntimeError("typedef does not name a type: " + decl)
""", "", "fire", "add_typedef:name-required")
V("C06", "C06.R12", "c06-dealloc-not-automatic", "shroud/wrapp.py",
  """            selected = ["dealloc", "del"]""", """            selected = ["del"]""", "fire", "dealloc-always")
V("C06", "C06.R12", "c06-dealloc-does-not-free", "shroud/wrapp.py",
  """        output.append("Py_TYPE(self)->tp_free((PyObject *) self);")
""", "", "fire", "dealloc-body")
V("C06", "C06.R12", "c06-result-object-idtor-unset", "shroud/wrapp.py",
  """            # PyObject_New does not initialize the object.
            # 0 does not release, else the index from owner(caller).
            "{py_var}->{PY_type_dtor} = {capsule_order};",
""", "", "fire", "py_shadow_*_result]:idtor")
V("C06", "C06.R12", "c06-owner-caller-result-not-registered", "shroud/wrapp.py",
  """        if (sgroup == "shadow" and not is_ctor
                and ast.attrs["owner"] == "caller"):""", """        if (sgroup == "shadow" and not is_ctor):""", "fire", "owner-caller")
V("C06", "C06.R13", "c06-helper-releases-its-parameter", "shroud/whelpers.py",
  """if (i == 0) {{+
return -1;
-}}""", """if (i == 0) {{+
Py_DECREF(obj);
return -1;
-}}""", "fire", "fill_from_PyObject_char")
V("C03", "C03.R16", "c03-charptr-list-size-unset", "shroud/wrapp.py",
  """            "{cxx_var} = {cast_static}char **{cast1}{value_var}.data{cast2};",
            "{size_var} = {value_var}.size;",
""", """            "{cxx_var} = {cast_static}char **{cast1}{value_var}.data{cast2};",
""", "fire", "py_char_**_in")
V("C04", "C04.R12", "c04-struct-members-rendered-as-dummies", "shroud/wrapf.py",
  """                output.append(ast.gen_arg_as_fortran(bindc=True, local=True))""",
  """                output.append(ast.gen_arg_as_fortran())""", "fire", "member-kinds")
V("C14", "C14.R5", "c14-numeric-options-stay-strings", "shroud/main.py",
  """                try:
                    value = int(value)
                except ValueError:
                    pass
""", """                pass
""", "fire", "int-options")
V("C13", "C13.R7", "c13-use-list-without-break-hint", "shroud/wrapf.py",
  """"use %s, only : %s" % (mname, ",\\t ".join(snames))""", """"use %s, only : %s" % (mname, ", ".join(snames))""", "fire", "sort_module_info:join")
V("C08", "C08.R3", "c08-default-arg-clone-keeps-explicit-suffix", "shroud/generate.py",
  """                fmt.delattrs(["function_suffix"])
""", """                pass
""", "fire", "has_default_args:inherited-suffix")
V("C12", "C12.R8", "c12-two-blocks-one-name", "shroud/wrapp.py",
  """self._create_splicer("to_object_idtor", output, to_object)""", """self._create_splicer("to_object", output, to_object)""", "fire", "block[to_object]")
V("C04", "C04.R13", "c04-setter-always-by-value", "shroud/generate.py",
  """intent="in", value=not ast.is_indirect()""", """intent="in", value=True""", "fire", "add_var_getter_setter")
V("C17", "C17.R11", "c17-generic-list-first-token-unchecked", "shroud/ast.py",
  """        if not parser.peek("LPAREN"):
            # parameter_list consumes the opening parenthesis unseen.
            parser.error_msg("Expected LPAREN, found {}", parser.token.typ)
""", "", "fire", "parse_generic:parameter_list")
V("C05", "C05.R16", "c05-ctor-default-returns-nullptr", "shroud/wrapp.py",
  '                "return {PY_error_return};\\n"\n#                "goto fail;\\n"',
  '                "return {nullptr};\\n"\n#                "goto fail;\\n"', "fire", "wrap_function:return {nullptr}")
V("C05", "C05.R16", "c05-dispatch-returns-null", "shroud/wrapp.py",
  '            append_format(body, "return {PY_error_return};", fmt)\n            body.append(-1)',
  '            append_format(body, "return {nullptr};", fmt)\n            body.append(-1)', "fire", "multi_dispatch:return {nullptr}")
V("C05", "C05.R16", "c05-literal-return-under-kind-test", "shroud/wrapp.py",
  '                return_code = "return rv;"\n                return_arg = "rv"',
  '                return_code = "return -1;"\n                return_arg = "rv"', "silent", "")
V("C05", "C05.R17", "c05-enum-keeps-flat-name-of-int", "shroud/typemap.py",
  '        ntypemap.flat_name = None\n        ntypemap.compute_flat_name()',
  '        ntypemap.compute_flat_name()', "fire", "create_enum_typemap:ntypemap.flat_name")
V("C05", "C05.R17", "c05-enum-flat-name-assigned-directly", "shroud/typemap.py",
  '        ntypemap.flat_name = None\n        ntypemap.compute_flat_name()',
  '        ntypemap.flat_name = flatten_name(ntypemap.cxx_type)', "silent", "")
V("C05", "C05.R17", "c05-two-types-one-flat-name", "shroud/typemap.py",
  '            flat_name="double_complex",', '            flat_name="float_complex",', "fire", "flat_name")
V("C05", "C05.R6", "c05-option-renamed", "shroud/ast.py",
  'C_var_trim_template="L{c_var}",', 'C_var_ltrim_template="L{c_var}",', "fire", "C_var_trim_template")
V("C05", "C05.R7", "c05-linelen-wrong-option", "shroud/wrapf.py",
  "self.linelen = newlibrary.options.F_line_length",
  "self.linelen = newlibrary.options.C_line_length", "fire", "Wrapf.linelen")
V("C05", "C05.R8", "c05-visitor-removed", "shroud/todict.py",
  "    def visit_TypedefNode(self, node):", "    def xvisit_TypedefNode(self, node):", "fire", "TypedefNode")

# ---------------------------------------------------------------------------
# C07
# ---------------------------------------------------------------------------
V("C07", "C07.R1", "c07-module-cache", "shroud/util.py",
  '''fmt = string.Formatter()

def wformat(template, dct):''',
  '''fmt = string.Formatter()
_written_files = []

def wformat(template, dct):''', "silent")
V("C07", "C07.R1", "c07-module-cache-mutated", "shroud/util.py",
  '''        self.log.write("Close %s\\n" % fname)
        print("Wrote", fname)''',
  '''        self.log.write("Close %s\\n" % fname)
        _written_files.append(fname)
        print("Wrote", fname)

_written_files = []
class _Unused(object):
    pass''', "fire", "util._written_files")
V("C07", "C07.R1", "c07-class-level-state-back", "shroud/wrapc.py",
  '''    def __init__(self, newlibrary, config, splicers):
        """
        Args:
            newlibrary - ast.LibraryNode
            config -
            splicers -
        """
        self.capsule_code = {}
        self.capsule_order = []
        self.capsule_include = {}  # includes needed by C_memory_dtor_function
''',
  '''    capsule_code = {}
    capsule_order = []
    capsule_include = {}

    def __init__(self, newlibrary, config, splicers):
        """
        Args:
            newlibrary - ast.LibraryNode
            config -
            splicers -
        """
''', "fire", "wrapc.Wrapc.capsule_order")
V("C07", "C07.R1", "c07-membership-guard-back", "shroud/whelpers.py",
  '''        lstart=lstart, lend=lend,
        )
    )
    CHelpers[name] = helper''',
  '''        lstart=lstart, lend=lend,
        )
    )
    if name not in CHelpers:
        CHelpers[name] = helper''', "fire", "whelpers.CHelpers")
V("C07", "C07.R1", "c07-typemap-no-reset", "shroud/typemap.py",
  '''def initialize():
    set_global_types({})''',
  '''def initialize():
    shared_typedict.clear()''', "silent")
V("C07", "C07.R1", "c07-typemap-register-only", "shroud/typemap.py",
  '''    set_global_types(def_types)

    return def_types''',
  '''    for _k, _v in def_types.items():
        register_type(_k, _v)

    return def_types''', "silent")
V("C07", "C07.R2", "c07-c-twin-removed", "shroud/statements.py",
  '''        c_pre_call=[],
        cxx_pre_call=[''',
  '''        cxx_pre_call=[''', "fire", "c_struct")
V("C07", "C07.R3", "c07-timestamp", "shroud/util.py",
  '''        fp.write("%s %s\\n" % (self.comment, fname))''',
  '''        import time
        fp.write("%s %s %s\\n" % (self.comment, fname, time.strftime("%Y")))''', "fire", "time")
V("C07", "C07.R3", "c07-append-mode", "shroud/util.py",
  'fp = open(path, "w")',
  'fp = open(path, "a")', "fire", "open")
V("C07", "C07.R3", "c07-environ", "shroud/main.py",
  '''        search_path = ["."]''',
  '''        search_path = [os.environ.get("SHROUD_PATH", ".")]''', "fire", "os.environ")
V("C07", "C07.R4", "c07-set-iteration", "shroud/wrapc.py",
  '''        for name in sorted(helpers.keys()):
            self._gather_helper_code(name, done)''',
  '''        for name in set(helpers.keys()):
            self._gather_helper_code(name, done)''', "fire", "gather_helper_code")
V("C07", "C07.R4", "c07-silent-unsorted-dict", "shroud/wrapc.py",
  '''        for name in sorted(helpers.keys()):
            self._gather_helper_code(name, done)''',
  '''        for name in helpers.keys():
            self._gather_helper_code(name, done)''', "silent")
V("C07", "C07.R5", "c07-shared-default-mutated", "shroud/typemap.py",
  '''    if language == "c":
        # The struct from the user's library is used.
        # XXX - if struct in class, uses class.cxx_header?
        ntypemap.c_header = libnode.cxx_header''',
  '''    if language == "c":
        # The struct from the user's library is used.
        # XXX - if struct in class, uses class.cxx_header?
        ntypemap.c_header.extend(libnode.cxx_header)''', "fire", "c_header")

# ---------------------------------------------------------------------------
# C15
# ---------------------------------------------------------------------------
V("C15", "C15.R1", "c15-wrapf-under-c-flag", "shroud/main.py",
  '''        if wrap.fortran:
            wrapf.Wrapf(newlibrary, config, splicers["f"]).wrap_library()''',
  '''        if wrap.c:
            wrapf.Wrapf(newlibrary, config, splicers["f"]).wrap_library()''', "fire", "Wrapf")
V("C15", "C15.R1", "c15-lua-unguarded", "shroud/main.py",
  '''        if wrap.lua:
            wrapl.Wrapl(newlibrary, config, splicers["lua"]).wrap_library()''',
  '''        if True:
            wrapl.Wrapl(newlibrary, config, splicers["lua"]).wrap_library()''', "fire", "Wrapl")
V("C15", "C15.R1", "c15-python-before-utility", "shroud/main.py",
  '''        clibrary.write_impl_utility()

        if wrap.python:
            wrapp.Wrapp(newlibrary, config, splicers["py"]).wrap_library()
''',
  '''        if wrap.python:
            wrapp.Wrapp(newlibrary, config, splicers["py"]).wrap_library()

        clibrary.write_impl_utility()
''', "fire", "order:Wrapp")
V("C15", "C15.R2", "c15-cfiles-append-removed", "shroud/wrapc.py",
  '''        if write_file:
            self.config.cfiles.append(
                os.path.join(self.config.c_fortran_dir, fname)
            )
            self.write_output_file(fname, self.config.c_fortran_dir, output)

    def write_header_utility(self):''',
  '''        if write_file:
            self.write_output_file(fname, self.config.c_fortran_dir, output)

    def write_header_utility(self):''', "fire", "write_impl_utility")
V("C15", "C15.R2", "c15-ffiles-wrong-dir", "shroud/wrapf.py",
  '''        self.config.ffiles.append(
            os.path.join(self.config.c_fortran_dir, fname)
        )''',
  '''        self.config.ffiles.append(
            os.path.join(self.config.out_dir, fname)
        )''', "fire", "Wrapf.write_module")
V("C15", "C15.R2", "c15-lua-header-python-dir", "shroud/wrapl.py",
  "        self.write_output_file(fname, self.config.lua_dir, output)\n\n    def append_luaL_Reg",
  "        self.write_output_file(fname, self.config.python_dir, output)\n\n    def append_luaL_Reg",
  "fire", "Wrapl.write_header")
V("C15", "C15.R2", "c15-python-registers-cfile", "shroud/wrapp.py",
  "        self.config.pyfiles.append(os.path.join(self.config.python_dir, fname))\n        self.write_output_file(fname, self.config.python_dir, output)\n\n    def multi_dispatch",
  "        self.config.cfiles.append(os.path.join(self.config.python_dir, fname))\n        self.write_output_file(fname, self.config.python_dir, output)\n\n    def multi_dispatch",
  "fire", "cfiles")
V("C15", "C15.R3", "c15-default-args-unconditional", "shroud/generate.py",
  "new.wrap.assign(c=node.wrap.c, fortran=node.wrap.fortran)",
  "new.wrap.assign(c=True, fortran=True)", "fire", "has_default_args")
V("C15", "C15.R3", "c15-bufferify-guard-removed", "shroud/generate.py",
  '''        if not node.wrap.fortran:
            # The buffer function is intended to be called by Fortran.
            # No Fortran, no need for buffer function.
            return
        if not options.F_string_len_trim:''',
  '''        if not options.F_string_len_trim:''', "fire", "result_as_arg")
V("C15", "C15.R3", "c15-bufferify-both-guards-removed", "shroud/generate.py",
  '''        if not node.wrap.c:
            # The user does not require a C wrapper.
            # This can be the case if the Fortran wrapper is doing all
            # the work via splicer or fstatements.
            return
''',
  '''        pass
''', "silent")
V("C15", "C15.R3", "c15-generic-caller-guard-removed", "shroud/generate.py",
  '''            if not method.wrap.fortran:
                continue
            if method._gen_fortran_generic''',
  '''            if method._gen_fortran_generic''', "fire", "generic_function")
V("C15", "C15.R4", "c15-wrapc-reads-python-flag", "shroud/wrapc.py",
  '''        options = node.options
        if not node.wrap.c:
            return

        if cls:
            cls_function = "method"''',
  '''        options = node.options
        if not node.wrap.c:
            return
        if node.wrap.python and options.PY_array_arg == "numpy":
            pass

        if cls:
            cls_function = "method"''', "fire", "wrap_function")
V("C15", "C15.R5", "c15-wrapc-entry-guard-removed", "shroud/wrapc.py",
  '''        options = node.options
        if not node.wrap.c:
            return

        if cls:
            cls_function = "method"''',
  '''        options = node.options

        if cls:
            cls_function = "method"''', "fire", "Wrapc.wrap_function")

# ---------------------------------------------------------------------------
# C16
# ---------------------------------------------------------------------------
V("C16", "C16.R1", "c16-debug-noncomment-line", "shroud/wrapc.py",
  '''            if options.debug:
                if options.debug_index:
                    impl.append("// function_index=%d" % node._function_index)''',
  '''            if options.debug:
                impl.append("static int SH_debug_%d;" % node._function_index)
                if options.debug_index:
                    impl.append("// function_index=%d" % node._function_index)''', "fire", "wrap_function")
V("C16", "C16.R1", "c16-debug-need-wrapper", "shroud/wrapf.py",
  '''        if options.debug:
            stmts_comments.append(
                "! ----------------------------------------")
            f_decl = ast.gen_decl(params=None)''',
  '''        if options.debug:
            need_wrapper = True
            stmts_comments.append(
                "! ----------------------------------------")
            f_decl = ast.gen_decl(params=None)''', "fire", "wrap_function_impl")
V("C16", "C16.R1", "c16-silent-more-comments", "shroud/wrapc.py",
  '''            if options.debug:
                if options.debug_index:
                    impl.append("// function_index=%d" % node._function_index)''',
  '''            if options.debug:
                impl.append("// generated from " + node.declgen)
                if options.debug_index:
                    impl.append("// function_index=%d" % node._function_index)''', "silent")
V("C16", "C16.R1", "c16-doxygen-else-branch", "shroud/wrapl.py",
  '''        if node.options.doxygen:''',
  '''        if not node.options.doxygen:
            body.append("static int SH_nodoc;")
        if node.options.doxygen:''', "fire", "")
V("C16", "C16.R1", "c16-literalinclude-in-code", "shroud/wrapc.py",
  '''            if options.literalinclude:
                append_format(impl, "// start {C_name}", fmt_func)''',
  '''            if options.literalinclude:
                append_format(impl, "#pragma region {C_name}", fmt_func)''', "fire", "")
V("C16", "C16.R1", "c16-splicer-marker-not-comment", "shroud/util.py",
  '''                "%s splicer begin %s%s"
                % (self.comment, self.splicer_path, name)''',
  '''                "%s splicer begin %s%s"
                % (self.splicer_path, self.comment, name)''', "fire", "_create_splicer")
V("C16", "C16.R1", "c16-option-as-value", "shroud/wrapf.py",
  '''        self.linelen = newlibrary.options.F_line_length''',
  '''        self.linelen = newlibrary.options.F_line_length - int(newlibrary.options.debug)''', "fire", "read")
V("C16", "C16.R2", "c16-helper-under-debug", "shroud/wrapc.py",
  '''        if options.debug:
            stmts_comments.append(
                "// ----------------------------------------")
            c_decl = ast.gen_decl(params=None)''',
  '''        if options.debug:
            self.add_c_helper("ShroudTypeDefines", fmt_result)
            stmts_comments.append(
                "// ----------------------------------------")
            c_decl = ast.gen_decl(params=None)''', "fire", "add_c_helper")
V("C16", "C16.R3", "c16-version-in-code", "shroud/util.py",
  '''        self.write_copyright(fp)
        self.indent = 0''',
  '''        self.write_copyright(fp)
        fp.write("static const char *shroud_version = \\"%s\\";\\n" % self.config.write_version)
        self.indent = 0''', "fire", "write_output_file")

# ---------------------------------------------------------------------------
# C12
# ---------------------------------------------------------------------------
V("C12", "C12.R1", "c12-reader-marker-renamed", "shroud/splicer.py",
  'str_begin = "splicer begin"', 'str_begin = "splicer start"', "fire", "marker.begin")
V("C12", "C12.R1", "c12-writer-end-other-name", "shroud/util.py",
  '"%s splicer end %s%s" % (self.comment, self.splicer_path, name)',
  '"%s splicer end %s%s" % (self.comment, self.splicer_path, name.lower())', "fire", "begin-end-same-name")
V("C12", "C12.R1", "c12-writer-no-leader", "shroud/util.py",
  '''                "%s splicer begin %s%s"
                % (self.comment, self.splicer_path, name)''',
  '''                "splicer begin %s%s%s"
                % (self.splicer_path, name, "")''', "fire", "marker.begin")
V("C12", "C12.R1", "c12-separator-changed", "shroud/util.py",
  '''        self.splicer_names.append(name)
        self.splicer_path = ".".join(self.splicer_names) + "."''',
  '''        self.splicer_names.append(name)
        self.splicer_path = "::".join(self.splicer_names) + "::"''', "fire", "")
V("C12", "C12.R2", "c12-user-before-force", "shroud/util.py",
  '''        if force is not None:
            out.extend(self._user_code(force))
        elif name in self.splicer_stack[-1]:
            code = self.splicer_stack[-1][name]
            out.extend(self._user_code(code))''',
  '''        if name in self.splicer_stack[-1]:
            code = self.splicer_stack[-1][name]
            out.extend(self._user_code(code))
        elif force is not None:
            out.extend(self._user_code(force))''', "fire", "order")
V("C12", "C12.R2", "c12-default-always-added", "shroud/util.py",
  '''        elif default is not None:
            out.extend(default)
        else:
            added_code = False''',
  '''        else:
            added_code = False
        if default is not None:
            out.extend(default)''', "fire", "")
V("C12", "C12.R3", "c12-pop-removed", "shroud/wrapc.py",
  '''        for node in library.functions:
            self.wrap_function(None, node)
        self._pop_splicer("function")''',
  '''        for node in library.functions:
            self.wrap_function(None, node)''', "fire", "Wrapc.wrap_functions")
V("C12", "C12.R3", "c12-pop-wrong-name", "shroud/wrapc.py",
  '''        for node in library.functions:
            self.wrap_function(None, node)
        self._pop_splicer("function")''',
  '''        for node in library.functions:
            self.wrap_function(None, node)
        self._pop_splicer("method")''', "fire", "Wrapc.wrap_functions")
V("C12", "C12.R3", "c12-early-return-between", "shroud/wrapc.py",
  '''        self._push_splicer("function")
        for node in library.functions:
            self.wrap_function(None, node)''',
  '''        self._push_splicer("function")
        if not library.functions:
            return
        for node in library.functions:
            self.wrap_function(None, node)''', "fire", "Wrapc.wrap_functions")
V("C12", "C12.R3", "c12-silent-pop-moved-same-path", "shroud/wrapc.py",
  '''        self._push_splicer("function")
        for node in library.functions:
            self.wrap_function(None, node)''',
  '''        self._push_splicer("function")
        functions = library.functions
        for node in functions:
            self.wrap_function(None, node)''', "silent")
V("C12", "C12.R4", "c12-reader-strips-both", "shroud/splicer.py",
  "save.append(line.rstrip())", "save.append(line.strip())", "fire", "reader.store")
V("C12", "C12.R5", "c12-wholesale-update-back", "shroud/main.py",
  '''        util.update(splicers,
                    ast.listify_splicer_code(allinput["splicer_code"]))''',
  '''        splicers.update(
            ast.listify_splicer_code(allinput["splicer_code"]))''', "fire", "splicers.update")

# ---------------------------------------------------------------------------
# C13
# ---------------------------------------------------------------------------
V("C13", "C13.R1", "c13-literal-drops-two", "shroud/util.py",
  "self.write_continue(fp, subline[1:], spaces)\n                    elif subline[0] == \"^\":",
  "self.write_continue(fp, subline[2:], spaces)\n                    elif subline[0] == \"^\":", "fire", "")
V("C13", "C13.R1", "c13-new-undocumented-directive", "shroud/util.py",
  '''                    elif subline[0] == "^":''',
  '''                    elif subline[0] == "~":
                        fp.write(subline[1:])
                        fp.write("\\n")
                    elif subline[0] == "^":''', "fire", "")
V("C13", "C13.R1", "c13-hash-line-indented", "shroud/util.py",
  '''                        # preprocessing directives work better in column 1
                        fp.write(subline)''',
  '''                        # preprocessing directives work better in column 1
                        fp.write(subline.strip())''', "fire", "whole")
V("C13", "C13.R1", "c13-indent-by-two", "shroud/util.py",
  '''                        #   +text[-]
                        self.indent += 1''',
  '''                        #   +text[-]
                        self.indent += 2''', "fire", "indent")
V("C13", "C13.R2", "c13-blank-is-hint", "shroud/util.py",
  '''            elif ch == "\\f":
                if part:
                    parts.append(part)
                    part = ""
                parts.append("\\f")''',
  '''            elif ch == "\\f":
                if part:
                    parts.append(part)
                    part = ""
                parts.append("\\f")
            elif ch == " " and len(part) > 60:
                parts.append(part)
                part = ""''', "fire", "hints")
V("C13", "C13.R3", "c13-part-dropped-on-break", "shroud/util.py",
  '''                part = part.lstrip()
                if not part:
                    save = False''',
  '''                part = part.lstrip()
                save = False''', "fire", "path")
V("C13", "C13.R3", "c13-reset-without-write", "shroud/util.py",
  '''            if dump:
                fp.write(subline + self.cont + "\\n")
                subline = spaces * (self.indent + indent)''',
  '''            if dump:
                if nparts:
                    fp.write(subline + self.cont + "\\n")
                subline = spaces * (self.indent + indent)''', "fire", "write-before-reset")
V("C13", "C13.R4", "c13-cont-dropped", "shroud/util.py",
  'fp.write(subline + self.cont + "\\n")', 'fp.write(subline + "\\n")', "fire", "cont")
V("C13", "C13.R4", "c13-fortran-cont-wrong", "shroud/wrapf.py",
  'self.cont = " &"', 'self.cont = " \\\\"', "fire", "Wrapf.cont")
V("C13", "C13.R5", "c13-default-too-long", "shroud/ast.py",
  "F_line_length=72,", "F_line_length=131,", "fire", "132")
V("C13", "C13.R5", "c13-break-ignores-pending", "shroud/util.py",
  "elif len(subline) + len(part) > linelen:", "elif len(part) > linelen:", "fire", "break-decision")
V("C13", "C13.R3", "c13-silent-rename-local", "shroud/util.py",
  '''            dump = False
            save = True
            if part == "\\f":  # formfeed
                # write out line now, this must not be the last part
                dump = True
                save = False  # don't save newline''',
  '''            dump = False
            save = True
            if part == "\\f":  # formfeed
                dump = True
                save = False''', "silent")

# ---------------------------------------------------------------------------
# C17
# ---------------------------------------------------------------------------
V("C17", "C17.R1", "c17-raise-valueerror", "shroud/generate.py",
  '''                raise RuntimeError(
                    "Illegal value '{}' for deref attribute. "''',
  '''                raise ValueError(
                    "Illegal value '{}' for deref attribute. "''', "fire", "check_deref_attr")
V("C17", "C17.R1", "c17-raise-notimplemented-const", "shroud/ast.py",
  '''        scope, self.symbols, and any scopes added via a 'using' statement.
        """
        raise NotImplementedError  # virtual function''',
  '''        scope, self.symbols, and any scopes added via a 'using' statement.
        """
        raise NotImplemented  # virtual function''', "fire", "unqualified_lookup")
V("C17", "C17.R2", "c17-none-node-deref", "shroud/generate.py",
  '''        if node and arg.metaattrs["assumed-rank"]:''',
  '''        if arg.metaattrs["assumed-rank"]:''', "fire", "_gen_fortran_generic")
V("C17", "C17.R3", "c17-decl-statement-no-eof", "shroud/declast.py",
  '''        self.have("SEMICOLON")
        self.mustbe("EOF")
        return node''',
  '''        self.have("SEMICOLON")
        return node''', "fire", "decl_statement")
V("C17", "C17.R3", "c17-check-expr-no-eof", "shroud/declast.py",
  '''    a = parser.expression()
    parser.mustbe("EOF")
    return a''',
  '''    a = parser.expression()
    return a''', "fire", "check_expr")
V("C17", "C17.R4", "c17-colon-before-namespace", "shroud/declast.py",
  '''    ("NAMESPACE", r"::"),
    ("COLON", r":"),''',
  '''    ("COLON", r":"),
    ("NAMESPACE", r"::"),''', "fire", "COLON<NAMESPACE")
V("C17", "C17.R4", "c17-skip-star", "shroud/declast.py",
  '''    ("SKIP", r"[ \\t]"),  # Skip over spaces and tabs''',
  '''    ("SKIP", r"[ \\t]*"),  # Skip over spaces and tabs''', "fire", "SKIP")
V("C17", "C17.R4", "c17-integer-before-real", "shroud/declast.py",
  '''    ("REAL", r"((((\\d+[.]\\d*)|(\\d*[.]\\d+))([Ee][+-]?\\d+)?)|(\\d+[Ee][+-]?\\d+))"),
    ("INTEGER", r"\\d+"),''',
  '''    ("INTEGER", r"\\d+"),
    ("REAL", r"((((\\d+[.]\\d*)|(\\d*[.]\\d+))([Ee][+-]?\\d+)?)|(\\d+[Ee][+-]?\\d+))"),''', "fire", "REAL<INTEGER")
V("C17", "C17.R5", "c17-qualifier-no-advance", "shroud/declast.py",
  '''                setattr(node, self.token.value, True)
                self.info("type-qualifier:", self.token.value)
                self.next()
            elif self.token.typ == "STORAGE_CLASS":''',
  '''                setattr(node, self.token.value, True)
                self.info("type-qualifier:", self.token.value)
            elif self.token.typ == "STORAGE_CLASS":''', "fire", "declaration_specifier")
V("C17", "C17.R5", "c17-pointer-qualifier-no-advance", "shroud/declast.py",
  '''            while self.token.typ == "TYPE_QUALIFIER":  # const, volatile
                setattr(node, self.token.value, True)
                self.info("type-qualifier:", self.token.value)
                self.next()''',
  '''            while self.token.typ == "TYPE_QUALIFIER":  # const, volatile
                setattr(node, self.token.value, True)
                self.info("type-qualifier:", self.token.value)''', "fire", "pointer")
V("C17", "C17.R6", "c17-paren-not-closed", "shroud/declast.py",
  '''            node = ParenExpr(self.expression())
            self.mustbe("RPAREN")''',
  '''            node = ParenExpr(self.expression())
            self.have("RPAREN")''', "fire", "primary")
V("C17", "C17.R6", "c17-attribute-eof-loop", "shroud/declast.py",
  '''                    elif self.token.typ == "EOF":
                        raise RuntimeError(
                            "Unbalanced parens in attribute {}".format(name)
                        )''',
  '''                    elif self.token.typ == "EOF":
                        break''', "fire", "attribute")
V("C17", "C17.R7", "c17-yaml-key-unchecked", "shroud/ast.py",
  '''            if "instantiation" not in dct:
                raise RuntimeError(
                    "instantation must be defined for each dictionary in cxx_template"
                )
''', '', "fire", "instantiation")
V("C17", "C17.R1", "c17-silent-message-change", "shroud/generate.py",
  '"Cannot have attribute \'deref\' on non-pointer")', '"deref attribute requires a pointer or reference")', "silent")

# ---------------------------------------------------------------------------
# C14
# ---------------------------------------------------------------------------
V("C14", "C14.R1", "c14-new-arg-one-producer", "shroud/main.py",
  '''    if args.language:
        allinput['language'] = args.language''',
  '''    if args.language:
        allinput['language'] = args.language
    if args.verbose:
        print("verbose")''', "fire", "args.verbose")
V("C14", "C14.R1", "c14-create-wrapper-missing", "shroud/main.py",
  "    args.write_version = True\n", "", "fire", "create_wrapper:args.write_version")
V("C14", "C14.R2", "c14-function-scope-unparented", "shroud/ast.py",
  "        self.fmtdict = util.Scope(parent.fmtdict)\n\n        if fmtdict:",
  "        self.fmtdict = util.Scope(None)\n\n        if fmtdict:", "fire", "FunctionNode.fmtdict")
V("C14", "C14.R2", "c14-options-into-parent", "shroud/ast.py",
  '''        self.options = util.Scope(parent.options)
        if options:
            self.options.update(options, replace=True)
        self.wrap = WrapFlags(self.options)

        self.default_format(parent, format, kwargs)

        # working variables''',
  '''        self.options = util.Scope(parent.options)
        if options:
            parent.options.update(options, replace=True)
        self.wrap = WrapFlags(self.options)

        self.default_format(parent, format, kwargs)

        # working variables''', "fire", "FunctionNode")
V("C14", "C14.R2", "c14-clone-shares-fmt", "shroud/ast.py",
  '''        # new Scope with same inlocal and parent.
        new.fmtdict = self.fmtdict.clone()''',
  '''        # new Scope with same inlocal and parent.
        new.fmtdict = self.fmtdict''', "fire", "FunctionNode.clone")
V("C14", "C14.R3", "c14-block-typedefs-dropped", "shroud/ast.py",
  "        self.typedefs = parent.typedefs\n        self.variables = parent.variables\n        self.scope = parent.scope",
  "        self.variables = parent.variables\n        self.scope = parent.scope", "fire", "BlockNode.typedefs")
V("C14", "C14.R3", "c14-block-own-list", "shroud/ast.py",
  "        self.enums = parent.enums\n        self.functions = parent.functions\n        self.namespaces = parent.namespaces",
  "        self.enums = parent.enums\n        self.functions = parent.classes\n        self.namespaces = parent.namespaces", "fire", "BlockNode.functions")
V("C14", "C14.R4", "c14-fattrs-replace", "shroud/ast.py",
  '            ast.attrs.update(kwargs["fattrs"])', '            ast.metaattrs.update(kwargs["fattrs"])', "fire", "fattrs")
V("C14", "C14.R5", "c14-option-key", "shroud/main.py",
  '''        if not allinput.get("options"):
            allinput["options"] = cmdoptions
        elif isinstance(allinput["options"], dict):
            allinput["options"].update(cmdoptions)''',
  '''        if not allinput.get("option"):
            allinput["option"] = cmdoptions
        elif isinstance(allinput["option"], dict):
            allinput["option"].update(cmdoptions)''', "fire", "options")
V("C14", "C14.R6", "c14-inlocal-looks-up-chain", "shroud/util.py",
  '''        i.e. does not check parent.
        """
        return key in self.__dict__''',
  '''        i.e. does not check parent.
        """
        return hasattr(self, key)''', "fire", "Scope.inlocal")
V("C14", "C14.R6", "c14-update-noreplace-overwrites", "shroud/util.py",
  "            elif not hasattr(self, key):\n                setattr(self, key, value)",
  "            elif key not in self.__dict__:\n                setattr(self, key, value)", "fire", "Scope.update")

# ---------------------------------------------------------------------------
# C11
# ---------------------------------------------------------------------------
V("C11", "C11.R1", "c11-fortran-twin-uses-c-names", "shroud/ast.py",
  '''                    fvalue = todict.print_node_identifier(
                        member.value, fmtmembers, "F_enum_member")''',
  '''                    fvalue = todict.print_node_identifier(
                        member.value, fmtmembers, "C_enum_member")''', "fire", "")
V("C11", "C11.R1", "c11-fvalue-not-reset", "shroud/ast.py",
  '''                        cvalue = int(literal)
                    fvalue = cvalue
                    value_is_int = True''',
  '''                        cvalue = int(literal)
                    value_is_int = True''', "fire", "")
V("C11", "C11.R1", "c11-octal-dropped", "shroud/ast.py",
  '''                    if len(digits) > 1 and digits[0] == "0":
                        # C++ reads a leading 0 as an octal literal.
                        cvalue = int(literal, 8)
                    else:
                        cvalue = int(literal)''',
  '''                    cvalue = int(literal)''', "fire", "octal")
V("C11", "C11.R1", "c11-octal-sign-not-peeled", "shroud/ast.py",
  '''                    if len(digits) > 1 and digits[0] == "0":''',
  '''                    if len(literal) > 1 and literal[0] == "0":''', "fire", "octal")
V("C11", "C11.R5", "c11-unary-right-unparenthesised", "shroud/todict.py",
  '''            right = "(" + right + ")"
        return self.visit(node.left) + node.op + right''',
  '''            right = " " + right
        return self.visit(node.left) + node.op + right''', "fire", "unary-right")
V("C11", "C11.R1", "c11-f-value-only-explicit", "shroud/ast.py",
  '''                fmt.C_value = cvalue # Only set if explicitly set by user.
            fmt.F_value = fvalue     # Always set.''',
  '''                fmt.C_value = cvalue # Only set if explicitly set by user.
                fmt.F_value = fvalue     # Always set.''', "fire", "F_value")
V("C11", "C11.R2", "c11-increment-two", "shroud/ast.py",
  "                cvalue = cvalue + 1\n                fvalue = cvalue",
  "                cvalue = cvalue + 2\n                fvalue = cvalue", "fire", "increment")
V("C11", "C11.R2", "c11-silent-augassign", "shroud/ast.py",
  "                cvalue = cvalue + 1\n                fvalue = cvalue",
  "                cvalue += 1\n                fvalue = cvalue", "silent")
V("C11", "C11.R2", "c11-incr-not-restarted", "shroud/ast.py",
  "                    fbase = fvalue\n                    incr = 0\n",
  "                    fbase = fvalue\n", "fire", "incr restart")
V("C11", "C11.R3", "c11-shift-operator-added", "shroud/declast.py",
  '''OPINFO_MAP = {
    "+": OpInfo(1, "LEFT"),''',
  '''OPINFO_MAP = {
    "<<": OpInfo(0, "LEFT"),
    "+": OpInfo(1, "LEFT"),''', "fire", "successor")
V("C11", "C11.R4", "c11-modulo-added", "shroud/declast.py",
  '''    "/": OpInfo(2, "LEFT"),''',
  '''    "/": OpInfo(2, "LEFT"),
    "%": OpInfo(2, "LEFT"),''', "fire", "OPINFO_MAP[%]")
V("C11", "C11.R4", "c11-precedence-swapped", "shroud/declast.py",
  '''    "+": OpInfo(1, "LEFT"),
    "-": OpInfo(1, "LEFT"),
    "*": OpInfo(2, "LEFT"),''',
  '''    "+": OpInfo(2, "LEFT"),
    "-": OpInfo(1, "LEFT"),
    "*": OpInfo(2, "LEFT"),''', "fire", "precedence")
V("C11", "C11.R5", "c11-rewrite-ignores-table", "shroud/todict.py",
  '''            if node.name in self.symbols:
                return self.symbols[node.name][self.key]
            return node.name''',
  '''            return node.name''', "fire", "PrintNodeIdentifier")
V("C11", "C11.R5", "c11-parens-dropped", "shroud/todict.py",
  '        return "(" + self.visit(node.node) + ")"', '        return self.visit(node.node)', "fire", "visit_ParenExpr")
V("C11", "C11.R6", "c11-c-emitter-uses-f-value", "shroud/wrapc.py",
  'append_format(output, "{C_enum_member} = {C_value},", fmt_id)',
  'append_format(output, "{C_enum_member} = {F_value},", fmt_id)', "fire", "wrap_enum")

# ---------------------------------------------------------------------------
# C09
# ---------------------------------------------------------------------------
V("C09", "C09.R1", "c09-func-const-not-rendered", "shroud/declast.py",
  '''            decl.append(")")
            if self.func_const:
                decl.append(" const")
        for dim in self.array:''',
  '''            decl.append(")")
        for dim in self.array:''', "fire", "gen_decl_work:func_const")
V("C09", "C09.R1", "c09-volatile-dropped-again", "shroud/declast.py",
  '''            decl.append("const ")
        if self.volatile:
            decl.append("volatile ")

        if self.attrs["_destructor"]:''',
  '''            decl.append("const ")

        if self.attrs["_destructor"]:''', "fire", "gen_decl_work:volatile")
V("C09", "C09.R1", "c09-ptr-const-dropped", "shroud/declast.py",
  '''        if self.const:
            decl.append(" const")
        if self.volatile:
            decl.append(" volatile")

    def __str__(self):
        s = self.ptr''',
  '''        if self.volatile:
            decl.append(" volatile")

    def __str__(self):
        s = self.ptr''', "fire", "Ptr.gen_decl_work:const")
V("C09", "C09.R1", "c09-ptr-str-drops-volatile", "shroud/declast.py",
  '''        if self.volatile:
            s += " volatile"
        return s''', '''        return s''', "fire", "Ptr.__str__:fields")
V("C09", "C09.R1", "c09-builtin-specifier-does-not-close-type", "shroud/declast.py",
  '''                found_type = True
                self.next()''', '''                self.next()''', "fire", "declaration_specifier:found_type")
V("C09", "C09.R1", "c09-octal-default-read-as-decimal", "shroud/declast.py",
  '''            if len(value) > 1 and value[0] == "0":
                # C++ reads a leading 0 as an octal literal.
                value = int(value, 8)
            else:
                value = int(value)''', '''            value = int(value)''', "fire", "initializer:octal")
V("C09", "C09.R1", "c09-new-parsed-field-unrendered", "shroud/declast.py",
  '''                if self.token.value == "const":
                    self.next()
                    node.func_const = True''',
  '''                if self.token.value == "const":
                    self.next()
                    node.func_const = True
                    node.func_cv = "const"''', "fire", "func_cv")
V("C09", "C09.R2", "c09-ptr-qualifier-before-star", "shroud/declast.py",
  '''        if self.ptr:
            decl.append(" ")
            if kwargs.get("as_c", False):''',
  '''        if self.const:
            decl.append(" const")
        if self.ptr:
            decl.append(" ")
            if kwargs.get("as_c", False):''', "fire", "Ptr.gen_decl_work:order")
V("C09", "C09.R2", "c09-pointers-reversed", "shroud/declast.py",
  '''            for ptr in self.pointer:
                ptr.gen_decl_work(decl, **kwargs)''',
  '''            for ptr in reversed(self.pointer):
                ptr.gen_decl_work(decl, **kwargs)''', "fire", "pointer-order")
V("C09", "C09.R3", "c09-printnode-unary-removed", "shroud/todict.py",
  '''    def visit_UnaryOp(self, node):
        operand = self.visit(node.node)''',
  '''    def xvisit_UnaryOp(self, node):
        operand = self.visit(node.node)''', "fire", "PrintNode.visit_UnaryOp")
V("C11", "C11.R5", "c11-unary-operand-sign-not-wrapped", "shroud/todict.py",
  '''        if operand[:1] in ("+", "-"):
            # "- -5" must not be printed as "--5".
            operand = "(" + operand + ")"
''', "", "fire", "visit_UnaryOp")
V("C11", "C11.R5", "c11-right-operand-tested-by-class", "shroud/todict.py",
  '''        if right[:1] in ("+", "-"):''', '''        if node.right.__class__.__name__ == "UnaryOp":''', "fire", "unary-right")
V("C11", "C11.R5", "c11-right-operand-startswith-form", "shroud/todict.py",
  '''        if right[:1] in ("+", "-"):''', '''        if right.startswith(("+", "-")):''', "silent", "")
V("C09", "C09.R3", "c09-paren-flattened-in-parser", "shroud/declast.py",
  "            node = ParenExpr(self.expression())", "            node = self.expression()", "fire", "paren")
V("C09", "C09.R4", "c09-right-assoc-minus", "shroud/declast.py",
  '    "-": OpInfo(1, "LEFT"),', '    "-": OpInfo(1, "RIGHT"),', "fire", "assoc")
V("C09", "C09.R5", "c09-canonical-typo", "shroud/declast.py",
  '    unsigned_long_int="unsigned_long",', '    unsigned_long_int="unsigned_lon",', "fire", "unsigned_long_int")
V("C09", "C09.R2", "c09-silent-reorder-independent", "shroud/declast.py",
  '''        new.const = self.const
        new.volatile = self.volatile''',
  '''        new.volatile = self.volatile
        new.const = self.const''', "silent")

# ---------------------------------------------------------------------------
# C08
# ---------------------------------------------------------------------------
V("C08", "C08.R1", "c08-template-clone-not-indexed", "shroud/generate.py",
  '''            new = node.clone()
            ordered_functions.append(new)
            self.append_function_index(new)

            new._generated = "cxx_template"

            fmt = new.fmtdict''',
  '''            new = node.clone()
            ordered_functions.append(new)

            new._generated = "cxx_template"

            fmt = new.fmtdict''', "fire", "template_function:")
V("C08", "C08.R1", "c08-generic-c-clone-not-listed", "shroud/generate.py",
  '''                cnew = node.clone()
                ordered_functions.append(cnew)
                self.append_function_index(cnew)''',
  '''                cnew = node.clone()
                self.append_function_index(cnew)''', "fire", "cnew")
V("C08", "C08.R1", "c08-template2-original-kept", "shroud/generate.py",
  '''        #        self.pop_instantiate_scope()

        # Do not process templated node, instead process
        # generated functions above.
        node.wrap.clear()''',
  '''        #        self.pop_instantiate_scope()
''', "fire", "template_function2")
V("C08", "C08.R1", "c08-bufferify-no-suffix", "shroud/generate.py",
  "        fmt_func.function_suffix = fmt_func.function_suffix + fmt_func.C_bufferify_suffix\n",
  "", "fire", "arg_to_buffer")
V("C08", "C08.R1", "c08-return-this-both-wrapped", "shroud/generate.py",
  '''        new.wrap.fortran = node.wrap.fortran
        node.wrap.c = False
        node.wrap.fortran = False''',
  '''        new.wrap.fortran = node.wrap.fortran''', "fire", "process_return_this")
V("C08", "C08.R1", "c08-class-suffix-constant", "shroud/generate.py",
  '''                    cxx_class = "{}{}".format(
                        newcls.fmtdict.cxx_class, class_suffix
                    )''',
  '''                    cxx_class = "{}".format(
                        newcls.fmtdict.cxx_class
                    )''', "fire", "instantiate_classes")
V("C08", "C08.R2", "c08-py-template-no-template-suffix", "shroud/ast.py",
  '"{PY_prefix}{function_name}{function_suffix}{template_suffix}"',
  '"{PY_prefix}{function_name}{function_suffix}"', "fire", "PY_name_impl_template")
V("C08", "C08.R2", "c08-generic-template-with-suffix", "shroud/ast.py",
  'F_name_generic_template="{underscore_name}",', 'F_name_generic_template="{underscore_name}{function_suffix}",',
  "fire", "F_name_generic_template")
V("C08", "C08.R2", "c08-c-name-undocumented-change", "shroud/ast.py",
  '"{C_prefix}{C_name_scope}{underscore_name}{function_suffix}{template_suffix}"',
  '"{C_prefix}{C_name_scope}{underscore_name}{template_suffix}{function_suffix}"', "fire", "docs/reference.rst:C_name_template")
V("C08", "C08.R3", "c08-overload-suffix-constant", "shroud/generate.py",
  '''                    function._overloaded = True
                    if not function.fmtdict.inlocal("function_suffix"):
                        function.fmtdict.function_suffix = "_{}".format(i)''',
  '''                    function._overloaded = True
                    if not function.fmtdict.inlocal("function_suffix"):
                        function.fmtdict.function_suffix = "_{}".format(len(overloads))''', "fire", "overload-suffix")
V("C08", "C08.R3", "c08-overload-ignores-explicit", "shroud/generate.py",
  '''                    if not function.fmtdict.inlocal("function_suffix"):
                        function.fmtdict.function_suffix = "_{}".format(i)''',
  '''                    if True:
                        function.fmtdict.function_suffix = "_{}".format(i)''', "fire", "explicit-wins")
V("C08", "C08.R3", "c08-generic-counter-stuck", "shroud/ast.py",
  "            isuffix += 1\n        ddct[\"fortran_generic\"] = newlst",
  "        ddct[\"fortran_generic\"] = newlst", "fire", "ast.clean_dictionary:")
V("C08", "C08.R4", "c08-generic-lists-function-name", "shroud/wrapf.py",
  '''                    for node in generics:
                        iface.append("module procedure " + node.fmtdict.F_name_impl)
                else:''',
  '''                    for node in generics:
                        iface.append("module procedure " + node.fmtdict.F_name_function)
                else:''', "fire", "dump_generic_interfaces:specifics")
V("C08", "C08.R5", "c08-un-camel-stateful", "shroud/util.py",
  '''    result = []
    pos = 0
    while pos < len(text):''',
  '''    result = []
    pos = 0
    if text in _camel_cache:
        return _camel_cache[text]
    while pos < len(text):''', "fire", "un_camel")
V("C08", "C08.R1", "c08-silent-rename-clone-var", "shroud/generate.py",
  '''        new = node.clone()
        ordered_functions.append(new)
        self.append_function_index(new)
        new._generated = "return_this"''',
  '''        new = node.clone()
        self.append_function_index(new)
        ordered_functions.append(new)
        new._generated = "return_this"''', "silent")

# ---------------------------------------------------------------------------
# C10
# ---------------------------------------------------------------------------
V("C10", "C10.R1", "c10-strcopy-nm-unclamped-cxx", "shroud/whelpers.py",
  '''     if (nsrc < 0) nsrc = std::strlen(src);
     int nm = nsrc < ndest ? nsrc : ndest;''',
  '''     if (nsrc < 0) nsrc = std::strlen(src);
     int nm = nsrc;''', "fire", "ShroudStrCopy[c++]")
V("C10", "C10.R1", "c10-strcopy-fill-too-long", "shroud/whelpers.py",
  "     if(ndest > nm) memset(dest+nm,' ',ndest-nm); // blank fill\n   }\n}\"\"\",\n        cxx_include",
  "     if(ndest > nm) memset(dest+nm,' ',ndest); // blank fill\n   }\n}\"\"\",\n        cxx_include", "fire", "ShroudStrCopy[c]")
V("C10", "C10.R1", "c10-stralloc-malloc-short", "shroud/whelpers.py",
  "   char *rv = malloc(nsrc + 1);", "   char *rv = malloc(nsrc);", "fire", "ShroudStrAlloc[c]")
V("C10", "C10.R1", "c10-lentrim-off-by-one", "shroud/whelpers.py",
  "    for (i = nsrc - 1; i >= 0; i--) {", "    for (i = nsrc; i >= 0; i--) {", "fire", "ShroudLenTrim")
V("C10", "C10.R1", "c10-lentrim-return", "shroud/whelpers.py",
  "    return i + 1;", "    return i + 2;", "fire", "ShroudLenTrim")
V("C10", "C10.R1", "c10-arrayalloc-tgt-short", "shroud/whelpers.py",
  "      char *tgt = malloc(ntrim+1);", "      char *tgt = malloc(ntrim);", "fire", "ShroudStrArrayAlloc[c]")
V("C10", "C10.R1", "c10-copystring-no-clamp", "shroud/whelpers.py",
  "if (data->elem_len < n) n = data->elem_len;\n", "", "fire", "LIB_ShroudCopyStringAndFree")
V("C10", "C10.R1", "c10-copyarray-max", "shroud/whelpers.py",
  "int n = c_var_size < data->size ? c_var_size : data->size;",
  "int n = c_var_size > data->size ? c_var_size : data->size;", "fire", "LIB_ShroudCopyArray")
V("C10", "C10.R1", "c10-blankfill-nul", "shroud/whelpers.py",
  "   if(ndest > nm) memset(dest+nm,' ',ndest-nm);\n}\"\"\",\n        cxx_include",
  "   if(ndest > nm) memset(dest+nm,'\\\\0',ndest-nm);\n}\"\"\",\n        cxx_include", "fire", "ShroudStrBlankFill")
V("C10", "C10.R4", "c10-rename-nm-one-variant", "shroud/whelpers.py",
  '''     if (nsrc < 0) nsrc = strlen(src);
     int nm = nsrc < ndest ? nsrc : ndest;
     memcpy(dest,src,nm);
     if(ndest > nm) memset(dest+nm,' ',ndest-nm); // blank fill''',
  '''     if (nsrc < 0) nsrc = strlen(src);
     int ncopy = nsrc < ndest ? nsrc : ndest;
     memcpy(dest,src,ncopy);
     if(ndest > ncopy) memset(dest+ncopy,' ',ndest-ncopy); // blank fill''', "fire", "c-vs-cxx")
V("C10", "C10.R2", "c10-trim-as-ndest", "shroud/statements.py",
  '''        name="c_char_*_result_buf",
        buf_args=["arg", "len"],
        c_helper="ShroudStrCopy",
        post_call=[
            # nsrc=-1 will call strlen({cxx_var})
            "ShroudStrCopy({c_var}, {c_var_len},"''',
  '''        name="c_char_*_result_buf",
        buf_args=["arg", "len"],
        c_helper="ShroudStrCopy",
        post_call=[
            # nsrc=-1 will call strlen({cxx_var})
            "ShroudStrCopy({c_var}, {c_var_trim},"''', "fire", "c_char_*_result_buf")
V("C10", "C10.R2", "c10-string-in-uses-len", "shroud/statements.py",
  '''        name="c_string_*/&_in_buf",
        buf_args=["arg", "len_trim"],
        cxx_local_var="scalar",
        pre_call=[
            "{c_const}std::string {cxx_var}({c_var}, {c_var_trim});",''',
  '''        name="c_string_*/&_in_buf",
        buf_args=["arg", "len_trim"],
        cxx_local_var="scalar",
        pre_call=[
            "{c_const}std::string {cxx_var}({c_var}, {c_var_len});",''', "fire", "c_string_*_in_buf")
V("C10", "C10.R2", "c10-buf-arg-missing", "shroud/statements.py",
  '''        name="c_char_*_out_buf",
        buf_args=["arg", "len"],''',
  '''        name="c_char_*_out_buf",
        buf_args=["arg"],''', "fire", "c_char_*_out_buf")
V("C10", "C10.R2", "c10-stralloc-len-for-trim", "shroud/statements.py",
  '"{c_var},\\t {c_var_trim},\\t {c_var_trim});",', '"{c_var},\\t {c_var_trim},\\t {c_var_len});",', "fire", "ShroudStrAlloc")
V("C10", "C10.R3", "c10-lentrim-passes-len", "shroud/wrapf.py",
  'append_format(arg_c_call, "len_trim({f_var}, kind=C_INT)", fmt)',
  'append_format(arg_c_call, "len({f_var}, kind=C_INT)", fmt)', "fire", "build_arg_list_impl[len_trim]")
V("C10", "C10.R3", "c10-templates-crossed", "shroud/statements.py",
  '''        attrs["len_trim"] = options.C_var_trim_template.format(''',
  '''        attrs["len_trim"] = options.C_var_len_template.format(''', "fire", "set_buf_variable_names[len_trim]")
V("C10", "C10.R5", "c10-ftrim-no-nul", "shroud/wrapf.py",
  'arg_c_call.append("trim({})//C_NULL_CHAR".format(f_arg.name))',
  'arg_c_call.append("trim({})".format(f_arg.name))', "fire", "ftrim")
V("C10", "C10.R5", "c10-ftrim-for-inout", "shroud/generate.py",
  '''            not options.F_CFI and
            intent == "in" and''',
  '''            not options.F_CFI and''', "fire", "ftrim-guard")
V("C10", "C10.R5", "c10-ftrim-guard-respelled", "shroud/generate.py",
  '''            not options.F_CFI and
            intent == "in" and''',
  '''            options.F_CFI == False and
            intent == "in" and''', "silent")
V("C10", "C10.R6", "c10-allocatable-wrong-len", "shroud/statements.py",
  '''        name="f_char_scalar/*_result_buf_allocatable",
        need_wrapper=True,
        c_helper="copy_string",
        f_helper="copy_string",
        arg_decl=[
            "character(len=:), allocatable :: {f_var}",
        ],
        post_call=[
            "allocate(character(len={c_var_context}%elem_len):: {f_var})",''',
  '''        name="f_char_scalar/*_result_buf_allocatable",
        need_wrapper=True,
        c_helper="copy_string",
        f_helper="copy_string",
        arg_decl=[
            "character(len=:), allocatable :: {f_var}",
        ],
        post_call=[
            "allocate(character(len={c_var_context}%size):: {f_var})",''', "fire", "allocate")

# ---------------------------------------------------------------------------
# C06
# ---------------------------------------------------------------------------
V("C06", "C06.R1", "c06-free-wrong-variable", "shroud/statements.py",
  '''        c_helper="ShroudStrAlloc ShroudStrFree",
        pre_call=[
            "char * {cxx_var} = ShroudStrAlloc(\\t"
            "{c_var},\\t {c_var_trim},\\t {c_var_trim});",
        ],
        post_call=[
            "ShroudStrFree({cxx_var});"''',
  '''        c_helper="ShroudStrAlloc ShroudStrFree",
        pre_call=[
            "char * {cxx_var} = ShroudStrAlloc(\\t"
            "{c_var},\\t {c_var_trim},\\t {c_var_trim});",
        ],
        post_call=[
            "ShroudStrFree({c_var});"''', "fire", "c_char_*_in_buf")
V("C06", "C06.R1", "c06-array-free-count", "shroud/statements.py",
  '"ShroudStrArrayFree({cxx_var}, {c_var_size});",', '"ShroudStrArrayFree({cxx_var}, {c_var_len});",',
  "fire", "c_char_**_in_buf")
V("C06", "C06.R2", "c06-destructor-wrong-type", "shroud/statements.py",
  '''        destructor_name="new_string",
        destructor=[
            "std::string *cxx_ptr = \\treinterpret_cast<std::string *>(ptr);",
            "delete cxx_ptr;",
        ],
        post_call=[
            "ShroudStrToArray({c_var_context}, {cxx_var}, {idtor});",''',
  '''        destructor_name="new_string",
        destructor=[
            "std::vector<char> *cxx_ptr = \\treinterpret_cast<std::vector<char> *>(ptr);",
            "delete cxx_ptr;",
        ],
        post_call=[
            "ShroudStrToArray({c_var_context}, {cxx_var}, {idtor});",''', "fire", "c_string_scalar_result_buf_allocatable")
V("C06", "C06.R2", "c06-idtor-not-stored", "shroud/statements.py",
  '''        name="c_vector_result_buf",
        buf_args=["context"],
        cxx_local_var="pointer",
        c_helper="ShroudTypeDefines",
        pre_call=[
            "{c_const}std::vector<{cxx_T}>"
            "\\t *{cxx_var} = new std::vector<{cxx_T}>;"
        ],
        post_call=[
            # Return address and size of vector data.
            "{c_var_context}->cxx.addr  = {cxx_var};",
            "{c_var_context}->cxx.idtor = {idtor};",''',
  '''        name="c_vector_result_buf",
        buf_args=["context"],
        cxx_local_var="pointer",
        c_helper="ShroudTypeDefines",
        pre_call=[
            "{c_const}std::vector<{cxx_T}>"
            "\\t *{cxx_var} = new std::vector<{cxx_T}>;"
        ],
        post_call=[
            # Return address and size of vector data.
            "{c_var_context}->cxx.addr  = {cxx_var};",
            "{c_var_context}->cxx.idtor = 0;",''', "fire", "c_vector_result_buf")
V("C06", "C06.R3", "c06-slot0-after-wrapping", "shroud/wrapc.py",
  '''        self.add_capsule_code("--none--", None, ["// Nothing to delete"])
        self.wrap_namespace(newlibrary.wrap_namespace, True)''',
  '''        self.wrap_namespace(newlibrary.wrap_namespace, True)
        self.add_capsule_code("--none--", None, ["// Nothing to delete"])''', "fire", "slot0-first")
V("C06", "C06.R3", "c06-idtor-without-dtor", "shroud/wrapc.py",
  '''        else:
            ntypemap.idtor = "0"

    def wrap_enum(self, cls, node):''',
  '''        else:
            ntypemap.idtor = "1"

    def wrap_enum(self, cls, node):''', "fire", "compute_idtor")
V("C06", "C06.R4", "c06-release-not-idempotent", "shroud/wrapc.py",
  '''                      "cap->addr = {nullptr};\\n"
                      "cap->idtor = 0;  // avoid deleting again\\n"''',
  '''                      "cap->addr = {nullptr};\\n"''', "fire", "write_capsule_code:reset")
V("C06", "C06.R4", "c06-shadow-dtor-keeps-handle", "shroud/statements.py",
  '''            "delete {CXX_this};",
            "{C_this}->addr = {nullptr};",''',
  '''            "delete {CXX_this};",''', "fire", "c_shadow_dtor")
V("C06", "C06.R4", "c06-fortran-delete-no-release", "shroud/whelpers.py",
  '''class({F_capsule_type}) :: cap
call {__helper}(cap%mem)''',
  '''class({F_capsule_type}) :: cap''', "fire", "capsule_helper")
V("C06", "C06.R5", "c06-helper-overflow", "shroud/whelpers.py",
  "   char *rv = malloc(nsrc + 1);", "   char *rv = malloc(nsrc);", "fire", "ShroudStrAlloc")
V("C06", "C06.R6", "c06-ctor-dataobj-dropped", "shroud/wrapp.py",
  '''            "self->{PY_member_data} = {value_var}.dataobj;"
            "  // steal reference",
        ],
    ),
    dict(
        # Fill an array struct member.''',
  '''        ],
    ),
    dict(
        # Fill an array struct member.''', "fire", "dataobj")
# ---------------------------------------------------------------------------
# C03
# ---------------------------------------------------------------------------
V("C03", "C03.R1", "c03-int-format-long", "shroud/typemap.py",
  '''            f_cast="int({f_var}, C_INT)",
            f_type="integer(C_INT)",
            f_kind="C_INT",
            f_module=dict(iso_c_binding=["C_INT"]),
            PY_format="i",
            PY_ctor="PyInt_FromLong({ctor_expr})",
            PY_get="PyInt_AsLong({py_var})",
            PYN_typenum="NPY_INT",
            LUA_type="LUA_TNUMBER",
            LUA_pop="lua_tointeger({LUA_state_var}, {LUA_index})",
            LUA_push="lua_pushinteger({LUA_state_var}, {push_arg})",
            sgroup="native",
            sh_type="SH_TYPE_INT",''',
  '''            f_cast="int({f_var}, C_INT)",
            f_type="integer(C_INT)",
            f_kind="C_INT",
            f_module=dict(iso_c_binding=["C_INT"]),
            PY_format="l",
            PY_ctor="PyInt_FromLong({ctor_expr})",
            PY_get="PyInt_AsLong({py_var})",
            PYN_typenum="NPY_INT",
            LUA_type="LUA_TNUMBER",
            LUA_pop="lua_tointeger({LUA_state_var}, {LUA_index})",
            LUA_push="lua_pushinteger({LUA_state_var}, {push_arg})",
            sgroup="native",
            sh_type="SH_TYPE_INT",''', "fire", "typemap[int]")
V("C03", "C03.R1", "c03-float-format-d", "shroud/typemap.py",
  '''            PY_format="f",''', '''            PY_format="d",''', "fire", "typemap[float]")
V("C03", "C03.R2", "c03-tuple-size-of-kwds", "shroud/wrapp.py",
  '''                "if (args != {nullptr}) SH_nargs += PyTuple_Size(args);\\n"
                "if (kwds != {nullptr}) SH_nargs += PyDict_Size(kwds);",''',
  '''                "if (args != {nullptr}) SH_nargs += PyTuple_Size(kwds);\\n"
                "if (kwds != {nullptr}) SH_nargs += PyDict_Size(kwds);",''', "fire", "PyTuple_Size")
V("C03", "C03.R3", "c03-parse-args-missing", "shroud/wrapp.py",
  '''        name="py_void_*_in",
        declare=[
            "PyObject *{py_var};",
        ],
        parse_format="O",
        parse_args=["&{py_var}"],''',
  '''        name="py_void_*_in",
        declare=[
            "PyObject *{py_var};",
        ],
        parse_format="O!",
        parse_args=["&{py_var}"],''', "fire", "py_void_*_in")
V("C03", "C03.R3", "c03-build-format-arity", "shroud/typemap.py",
  '''            PY_build_format="s#",''', '''            PY_build_format="s",''', "fire", "std::string")
V("C03", "C03.R4", "c03-goto-fail-dropped", "shroud/wrapp.py",
  '''array_error = [
    "if ({py_var} == {nullptr}) {{+",
    "PyErr_SetString(PyExc_ValueError,"
    '\\t "{c_var} must be a 1-D array of {c_type}");',
    "goto fail;",
    "-}}",
]''',
  '''array_error = [
    "if ({py_var} == {nullptr}) {{+",
    "PyErr_SetString(PyExc_ValueError,"
    '\\t "{c_var} must be a 1-D array of {c_type}");',
    "-}}",
]''', "fire", "PyErr_SetString")
V("C03", "C03.R4", "c03-helper-error-no-return", "shroud/whelpers.py",
  '''PyErr_Format(PyExc_TypeError,\\t "argument should be string or None, not %.200s",\\t Py_TYPE(obj)->tp_name);
return 0;''',
  '''PyErr_Format(PyExc_TypeError,\\t "argument should be string or None, not %.200s",\\t Py_TYPE(obj)->tp_name);''',
  "fire", "get_from_object_char")
V("C03", "C03.R4", "c03-goto-fail-flag-missing", "shroud/wrapp.py",
  '''        fail=[
            "Py_XDECREF({value_var}.dataobj);",
        ],
        goto_fail=True,
    ),
    
########################################
# string''',
  '''        fail=[
            "Py_XDECREF({value_var}.dataobj);",
        ],
    ),
    
########################################
# string''', "fire", "py_char_**_in")
V("C03", "C03.R6", "c03-counter-ignores-kwds", "shroud/wrapp.py",
  '''                "if (args != {nullptr}) SHT_nargs += PyTuple_Size(args);\\n"
                "if (kwds != {nullptr}) SHT_nargs += PyDict_Size(kwds);",''',
  '''                "if (args != {nullptr}) SHT_nargs += PyTuple_Size(args);",''', "fire", "SHT_nargs")

# ---------------------------------------------------------------------------
# C18
# ---------------------------------------------------------------------------
V("C18", "C18.R1", "c18-int-pops-number", "shroud/typemap.py",
  '''            PY_format="i",
            PY_ctor="PyInt_FromLong({ctor_expr})",
            PY_get="PyInt_AsLong({py_var})",
            PYN_typenum="NPY_INT",
            LUA_type="LUA_TNUMBER",
            LUA_pop="lua_tointeger({LUA_state_var}, {LUA_index})",
            LUA_push="lua_pushinteger({LUA_state_var}, {push_arg})",
            sgroup="native",
            sh_type="SH_TYPE_INT",''',
  '''            PY_format="i",
            PY_ctor="PyInt_FromLong({ctor_expr})",
            PY_get="PyInt_AsLong({py_var})",
            PYN_typenum="NPY_INT",
            LUA_type="LUA_TNUMBER",
            LUA_pop="lua_tonumber({LUA_state_var}, {LUA_index})",
            LUA_push="lua_pushinteger({LUA_state_var}, {push_arg})",
            sgroup="native",
            sh_type="SH_TYPE_INT",''', "fire", "typemap[int]")
V("C18", "C18.R1", "c18-bool-type-tag", "shroud/typemap.py",
  '            LUA_type="LUA_TBOOLEAN",', '            LUA_type="LUA_TNUMBER",', "fire", "typemap[bool]")
V("C18", "C18.R1", "c18-pop-fixed-slot", "shroud/typemap.py",
  '''            PYN_typenum="NPY_DOUBLE",
            LUA_type="LUA_TNUMBER",
            LUA_pop="lua_tonumber({LUA_state_var}, {LUA_index})",
            LUA_push="lua_pushnumber({LUA_state_var}, {push_arg})",
            sgroup="native",
            sh_type="SH_TYPE_DOUBLE",''',
  '''            PYN_typenum="NPY_DOUBLE",
            LUA_type="LUA_TNUMBER",
            LUA_pop="lua_tonumber({LUA_state_var}, 1)",
            LUA_push="lua_pushnumber({LUA_state_var}, {push_arg})",
            sgroup="native",
            sh_type="SH_TYPE_DOUBLE",''', "fire", "typemap[double]")
V("C18", "C18.R2", "c18-default-arm-dropped", "shroud/wrapl.py",
  '''                "default:+\\n"
                'luaL_error({LUA_state_var}, "error with arguments");\\n'
                "break;\\n"
                "-}}\\n"
                "return SH_nresult;",''',
  '''                "-}}\\n"
                "return SH_nresult;",''', "fire", "default-arm")
V("C18", "C18.R2", "c18-else-arm-dropped", "shroud/wrapl.py",
  '''                if nargs > 0:
                    # Trap errors when the argument types do not match
                    append_format(
                        lines,
                        "else {{+\\n"
                        'luaL_error({LUA_state_var}, "error with arguments");\\n'
                        "-}}",
                        fmt,
                    )''',
  '''                if nargs > 99:
                    # Trap errors when the argument types do not match
                    append_format(
                        lines,
                        "else {{+\\n"
                        'luaL_error({LUA_state_var}, "error with arguments");\\n'
                        "-}}",
                        fmt,
                    )''', "fire", "else-arm")
V("C18", "C18.R2", "c18-prefix-after-append", "shroud/wrapl.py",
  '''                if arg.init is not None:
                    all_calls.append(
                        LuaFunction(
                            function, CXX_subprogram, in_args[:], out_args
                        )
                    )
                in_args.append(arg)''',
  '''                in_args.append(arg)
                if arg.init is not None:
                    all_calls.append(
                        LuaFunction(
                            function, CXX_subprogram, in_args[:], out_args
                        )
                    )''', "fire", "default-prefixes")
V("C18", "C18.R2", "c18-type-test-wrong-slot", "shroud/wrapl.py",
  "                        fmt.itype_var = itype_vars[iarg]\n", "                        fmt.itype_var = itype_vars[0]\n",
  "fire", "type-tests")
V("C18", "C18.R2", "c18-nresult-missing", "shroud/wrapl.py",
  '''                        self.do_function(cls, call, fmt)
                        append_format(lines, "SH_nresult = {nresults};", fmt)
                        lines.extend([-1, "}"])''',
  '''                        self.do_function(cls, call, fmt)
                        lines.extend([-1, "}"])''', "fire", "nresult")
V("C18", "C18.R3", "c18-index-always-advances", "shroud/wrapl.py",
  '''                    fmt_arg.pop_expr = wformat(arg_typemap.c_to_cxx, fmt_arg)
                LUA_index += 1''',
  '''                    fmt_arg.pop_expr = wformat(arg_typemap.c_to_cxx, fmt_arg)
            LUA_index += 1''', "fire", "LUA_index")
V("C18", "C18.R3", "c18-result-not-pushed", "shroud/wrapl.py",
  '''        name="lua_bool_scalar_result",
        mixin=[
            "lua_mixin_callfunction",
            "lua_mixin_push"
        ],''',
  '''        name="lua_bool_scalar_result",
        mixin=[
            "lua_mixin_callfunction",
        ],''', "fire", "lua_bool_scalar_result")
V("C18", "C18.R3", "c18-field-typo", "shroud/wrapl.py",
  '''            "bool {c_var} = {pop_expr};",''', '''            "bool {c_var} = {pop_exp};",''', "fire", "lua_bool_scalar_in")

# ---------------------------------------------------------------------------
# C02
# ---------------------------------------------------------------------------
V("C02", "C02.R1", "c02-static-gets-this", "shroud/wrapc.py",
  '''                if is_static:
                    fmt_func.CXX_this_call = (
                        fmt_func.namespace_scope + fmt_func.class_scope
                    )
                else:''',
  '''                if is_static:
                    fmt_func.CXX_this_call = (
                        fmt_func.namespace_scope + fmt_func.class_scope
                    )
                if True:''', "fire", "wrap_function")
V("C02", "C02.R1", "c02-this-cast-wrong-member", "shroud/wrapc.py",
  '"{cast_static}{c_const}{namespace_scope}{cxx_type} *{cast1}{c_var}->addr{cast2};",',
  '"{cast_static}{c_const}{namespace_scope}{cxx_type} *{cast1}{c_var}{cast2};",', "fire", "instance")
V("C02", "C02.R1", "c02-call-without-this", "shroud/wrapc.py",
  '''                "{CXX_this_call}{function_name}"
                "{CXX_template}({C_call_list});",''',
  '''                "{function_name}"
                "{CXX_template}({C_call_list});",''', "fire", "call-through-this")
V("C02", "C02.R2", "c02-call-list-insert", "shroud/wrapc.py",
  '''                    if arg.is_pointer():
                        call_list.append("&" + fmt_arg.cxx_var)''',
  '''                    if arg.is_pointer():
                        call_list.insert(0, "&" + fmt_arg.cxx_var)''', "fire", "call_list.insert")
V("C02", "C02.R2", "c02-params-reversed", "shroud/wrapc.py",
  '''        # --- Loop over function parameters
        for arg in ast.params:
            arg_name = arg.name
            fmt_arg0 = fmtargs.setdefault(arg_name, {})
            fmt_arg = fmt_arg0.setdefault("fmtc", util.Scope(fmt_func))''',
  '''        # --- Loop over function parameters
        for arg in reversed(ast.params):
            arg_name = arg.name
            fmt_arg0 = fmtargs.setdefault(arg_name, {})
            fmt_arg = fmt_arg0.setdefault("fmtc", util.Scope(fmt_func))''', "fire", "param-loop")
V("C02", "C02.R3", "c02-deref-swapped", "shroud/wrapc.py",
  '''    elif local_var == "pointer":
#        fmt.cxx_deref = "*"
        fmt.cxx_member = "->"
        fmt.cxx_addr = ""''',
  '''    elif local_var == "pointer":
#        fmt.cxx_deref = "*"
        fmt.cxx_member = "."
        fmt.cxx_addr = ""''', "fire", "compute_cxx_deref")
V("C02", "C02.R3", "c02-reference-not-dereferenced", "shroud/wrapc.py",
  '''                    #}
                    call_list.append("*" + fmt_arg.cxx_var)
                else:
                    call_list.append(fmt_arg.cxx_var)''',
  '''                    #}
                    call_list.append(fmt_arg.cxx_var)
                else:
                    call_list.append(fmt_arg.cxx_var)''', "fire", "call[reference]")
V("C02", "C02.R3", "c02-return-prefix", "shroud/statements.py",
  '''    if local_var == "scalar":
        if arg.is_indirect():
            return "&"
        else:
            return ""''',
  '''    if local_var == "scalar":
        if arg.is_indirect():
            return ""
        else:
            return "&"''', "fire", "compute_return_prefix")
V("C02", "C02.R4", "c02-mpi-one-way", "shroud/typemap.py",
  '''            cxx_to_c="MPI_Comm_c2f({cxx_var})",
            c_to_cxx="MPI_Comm_f2c({c_var})",''',
  '''            cxx_to_c="MPI_Comm_c2f({cxx_var})",
            c_to_cxx="MPI_Comm_c2f({c_var})",''', "fire", "MPI_Comm")
V("C02", "C02.R4", "c02-enum-cast-back-int", "shroud/typemap.py",
  '"static_cast<{namespace_scope}{enum_name}>({{c_var}})", fmt_enum', '"static_cast<int>({{c_var}})", fmt_enum',
  "fire", "create_enum_typemap")
V("C02", "C02.R5", "c02-const-dropped-in-proto", "shroud/declast.py",
  '''        const_index = None
        if self.const:
            const_index = len(decl)
            decl.append("const ")
        if self.volatile:
            decl.append("volatile ")''',
  '''        const_index = None
        if self.volatile:
            decl.append("volatile ")''', "fire", "gen_arg_as_lang:const")
V("C02", "C02.R6", "c02-c-name-no-scope", "shroud/ast.py",
  '"{C_prefix}{C_name_scope}{underscore_name}{function_suffix}{template_suffix}"',
  '"{C_prefix}{underscore_name}{function_suffix}{template_suffix}"', "fire", "C_name_template")
V("C02", "C02.R7", "c02-cxx-index-conditional", "shroud/generate.py",
  '''        C_new.wrap.assign(c=True)
        C_new._PTR_C_CXX_index = node._function_index

        for arg in C_new.ast.params:
            attrs = arg.attrs
            meta = arg.metaattrs''',
  '''        C_new.wrap.assign(c=True)
        if has_buf_arg:
            C_new._PTR_C_CXX_index = node._function_index

        for arg in C_new.ast.params:
            attrs = arg.attrs
            meta = arg.metaattrs''', "fire", "arg_to_buffer")

# ---------------------------------------------------------------------------
# C01
# ---------------------------------------------------------------------------
V("C01", "C01.R1", "c01-buffer-link-dropped", "shroud/generate.py",
  '''            # Fortran function calls bufferify function.
            node._PTR_F_C_index = C_new._function_index
        return True

    def arg_to_buffer(''',
  '''            # Fortran function calls bufferify function.
            pass
        return True

    def arg_to_buffer(''', "fire", "_PTR_F_C_index")
V("C01", "C01.R1", "c01-generic-links-self", "shroud/generate.py",
  "                new._PTR_F_C_index = cnew._function_index",
  "                new._PTR_F_C_index = new._function_index", "fire", "generic_function")
V("C01", "C01.R1", "c01-impl-no-follow", "shroud/wrapf.py",
  "            C_node = self.newlibrary.function_index[C_node._PTR_F_C_index]",
  "            C_node = self.newlibrary.function_index[C_node._function_index]; break", "fire", "follow")
V("C01", "C01.R1", "c01-call-template-wrong-args", "shroud/wrapf.py",
  '"call {F_C_call}({F_arg_c_call})"', '"call {F_C_call}({F_arguments})"', "fire", "call-template")
V("C01", "C01.R2", "c01-bool-in-no-copy", "shroud/statements.py",
  '''        name="f_bool_in",
        c_local_var=True,
        pre_call=["{c_var} =\\t {f_var}  ! coerce to C_BOOL"],''',
  '''        name="f_bool_in",
        c_local_var=True,''', "fire", "f_bool_in")
V("C01", "C01.R2", "c01-bool-inout-no-copy-back", "shroud/statements.py",
  '''        pre_call=["{c_var} =\\t {f_var}  ! coerce to C_BOOL"],
        post_call=["{f_var} =\\t {c_var}  ! coerce to logical"],''',
  '''        pre_call=["{c_var} =\\t {f_var}  ! coerce to C_BOOL"],
        post_call=["{c_var} =\\t {f_var}  ! coerce to logical"],''', "fire", "f_bool_inout")
V("C01", "C01.R2", "c01-bool-comment-changed", "shroud/statements.py",
  '        post_call=["{f_var} =\\t {c_var}  ! coerce to logical"],\n    ),\n    dict(\n        name="f_bool_inout",',
  '        post_call=["{f_var} =\\t {c_var}  ! to logical"],\n    ),\n    dict(\n        name="f_bool_inout",', "silent")
V("C01", "C01.R3", "c01-arg-c-call-insert", "shroud/wrapf.py",
  "                    arg_c_call.append(fmt.c_var)\n                continue",
  "                    arg_c_call.insert(0, fmt.c_var)\n                continue", "fire", "arg_c_call")
V("C01", "C01.R3", "c01-f-names-sorted", "shroud/wrapf.py",
  "        if arg_c_call:\n            fmt_func.F_arg_c_call",
  "        if arg_c_call:\n            arg_c_call.sort()\n            fmt_func.F_arg_c_call", "fire", "arg_c_call")
V("C01", "C01.R6", "c01-result-blk-in-arg-loop", "shroud/wrapf.py",
  '''                    if f_intent_blk.arg_name:
                        for aname in f_intent_blk.arg_name:
                            append_format(arg_f_names, aname, fmt_arg)''',
  '''                    if f_result_blk.arg_name:
                        for aname in f_result_blk.arg_name:
                            append_format(arg_f_names, aname, fmt_result)''', "fire", "wrap_function_impl")
V("C01", "C01.R4", "c01-context-dropped-from-c-entry", "shroud/statements.py",
  '''        name="c_native_*_result_buf",
        buf_args=["context"],''',
  '''        name="c_native_*_result_buf",
        buf_args=[],''', "fire", "context")

# ---------------------------------------------------------------------------
# C17.R13 / R12: typed uses of values of the input file
# ---------------------------------------------------------------------------
V("C17", "C17.R13", "c17-yaml-group-not-typed", "shroud/ast.py",
  '''    for key in ["attrs", "fattrs", "fields", "format", "options",''',
  '''    for key in ["attrs", "fields", "format", "options",''', "fire", "fattrs")
V("C17", "C17.R13", "c17-yaml-blank-group-kept", "shroud/ast.py",
  '''            # A blank group is the same as no group.
            del ddct[key]''',
  '''            # A blank group is the same as no group.
            pass''', "fire", "fstatements")
V("C17", "C17.R13", "c17-yaml-string-field-not-typed", "shroud/ast.py",
  '''    for key in ["cxx_header", "namespace", "cpp_if", "library"]:''',
  '''    for key in ["cxx_header", "namespace", "library"]:''', "fire", "cpp_if")
V("C17", "C17.R13", "c17-yaml-header-not-typed", "shroud/ast.py",
  '''    for key in ["cxx_header", "namespace", "cpp_if", "library"]:''',
  '''    for key in ["namespace", "cpp_if", "library"]:''', "fire", "cxx_header")
V("C17", "C17.R13", "c17-yaml-group-values-not-typed", "shroud/ast.py",
  '''    for key in ["attrs", "fstatements"]:
        # groups of groups''',
  '''    for key in ["attrs"]:
        # groups of groups''', "fire", "fstatements[]")
V("C17", "C17.R13", "c17-yaml-typemap-fields-not-typed", "shroud/ast.py",
  '''            if not isinstance(fields, dict):
                raise RuntimeError(
                    "typemap fields must be a dictionary at line {}"
                    .format(subnode.get("__line__", "?")))''',
  '''            if fields is None:
                raise RuntimeError(
                    "typemap fields must be a dictionary at line {}"
                    .format(subnode.get("__line__", "?")))''', "fire", "typemap[].fields")
V("C17", "C17.R13", "c17-yaml-typemap-entry-not-typed", "shroud/ast.py",
  '''            if not isinstance(subnode, dict):
                raise RuntimeError(
                    "typemap must be a list of dictionaries, found '{}'"
                    .format(subnode))
''', '', "fire", "typemap[]")
V("C17", "C17.R13", "c17-yaml-options-merged-before-check", "shroud/main.py",
  '''        elif isinstance(allinput["options"], dict):
            allinput["options"].update(cmdoptions)''',
  '''        else:
            allinput["options"].update(cmdoptions)''', "fire", "options")
V("C17", "C17.R13", "c17-yaml-splicer-names-not-typed", "shroud/main.py",
  '''            if not isinstance(names, list):
                raise RuntimeError(
                    "splicer for '{}' must be a list of file names"
                    .format(suffix))
''', '', "fire", "splicer[]")
V("C17", "C17.R13", "c17-yaml-copyright-lines-not-text", "shroud/ast.py",
  '''        elif not isinstance(line, str):
            # A line such as "- 2020" is read as a number.
            lst[i] = str(line)
''', '', "fire", "copyright[]")
V("C17", "C17.R13", "c17-yaml-check-after-use", "shroud/ast.py",
  '''            if not isinstance(fields, dict):
                raise RuntimeError(
                    "typemap fields must be a dictionary at line {}"
                    .format(subnode.get("__line__", "?")))
            def_types = typemap.get_global_types()
            ntypemap = def_types.get(key, None)
            if ntypemap:
                ntypemap.update(fields)''',
  '''            def_types = typemap.get_global_types()
            ntypemap = def_types.get(key, None)
            if ntypemap:
                ntypemap.update(fields)
            if not isinstance(fields, dict):
                raise RuntimeError(
                    "typemap fields must be a dictionary at line {}"
                    .format(subnode.get("__line__", "?")))''', "fire", "typemap[].fields")
V("C17", "C17.R13", "c17-yaml-silent-local-check", "shroud/ast.py",
  '''        if "fattrs" in kwargs:
            ast.attrs.update(kwargs["fattrs"])''',
  '''        if "fattrs" in kwargs:
            if not isinstance(kwargs["fattrs"], dict):
                raise RuntimeError("fattrs must be a dictionary")
            ast.attrs.update(kwargs["fattrs"])''', "silent")
V("C17", "C17.R13", "c17-yaml-silent-get-spelling", "shroud/main.py",
  '''        if not allinput.get("options"):
            allinput["options"] = cmdoptions
        elif isinstance(allinput["options"], dict):''',
  '''        if not allinput.get("options", None):
            allinput["options"] = cmdoptions
        elif isinstance(allinput.get("options"), dict):''', "silent")
V("C17", "C17.R12", "c17-rank-typeerror-not-caught", "shroud/generate.py",
  '''            except (TypeError, ValueError):
                raise RuntimeError(
                    "'rank' attribute must have an integer value, not '{}'"''',
  '''            except ValueError:
                raise RuntimeError(
                    "'rank' attribute must have an integer value, not '{}'"''', "fire", "conversion-errors")
V("C17", "C17.R12", "c17-implied-not-typed", "shroud/generate.py",
  '''            if not isinstance(expr, str):
                raise RuntimeError(
                    "{}:implied attribute must be an expression, found '{}'"
                    .format(context.linenumber, expr))
''', '', "fire", "expr")
V("C17", "C17.R12", "c17-empty-text-last-character", "shroud/ast.py",
  '''                if value and value[-1] == "\\n":''',
  '''                if value[-1] == "\\n":''', "fire", "non-empty")
V("C17", "C17.R12", "c17-silent-empty-text-endswith", "shroud/ast.py",
  '''                if value and value[-1] == "\\n":''',
  '''                if value.endswith("\\n"):''', "silent")
V("C17", "C17.R7", "c17-silent-shortcircuit-membership", "shroud/ast.py",
  '''    if "cpp_if" in ddct and ddct["cpp_if"] is None:
        del ddct["cpp_if"]''',
  '''    if ddct.get("cpp_if", 0) is None:
        del ddct["cpp_if"]''', "silent")

# ---------------------------------------------------------------------------
# rows 74-80
# ---------------------------------------------------------------------------
V("C17", "C17.G1", "c17-undefined-name", "shroud/wrapp.py",
  '''            output.append("#error no py_statements getter for {}"
                          .format(stmt0))''',
  '''            output.append("#error no py_statements getter for {}"
                          .format(stmts0))''', "fire", "undefined-name")
V("C17", "C17.R14", "c17-octal-check-dropped-in-primary", "shroud/declast.py",
  '''            self.enter("constant")
            self.check_octal()
''', '''            self.enter("constant")
''', "fire", "primary")
V("C17", "C17.R14", "c17-octal-check-after-token-passed", "shroud/declast.py",
  '''        self.enter("initializer")
        self.check_octal()
        value = self.token.value
        if self.have("REAL"):
            value = float(value)
        elif self.have("INTEGER"):''',
  '''        self.enter("initializer")
        value = self.token.value
        if self.have("REAL"):
            value = float(value)
        elif self.have("INTEGER"):
            self.check_octal()''', "fire", "initializer")
V("C17", "C17.R14", "c17-silent-octal-inline-try", "shroud/declast.py",
  '''        self.enter("initializer")
        self.check_octal()
        value = self.token.value''',
  '''        self.enter("initializer")
        value = self.token.value
        try:
            int(value, 8 if value[:1] == "0" and value.isdigit() else 10)
        except ValueError:
            if value.isdigit():
                self.error_msg("Invalid digit in octal constant '{}'", value)''', "silent")
V("C05", "C05.R20", "c05-template-argument-by-typemap-name", "shroud/wrapc.py",
  '''                fmt_arg.cxx_T = targ_typemap.cxx_type''',
  '''                fmt_arg.cxx_T = targ_typemap.name''', "fire", "cxx_T")
V("C05", "C05.R20", "c05-helper-named-by-type-spelling", "shroud/wrapp.py",
  '''            fmt_arg.flat_name = arg_typemap.flat_name''',
  '''            fmt_arg.flat_name = arg_typemap.c_type''', "fire", "flat_name")
V("C05", "C05.R20", "c05-helper-template-uses-c-type", "shroud/wrapp.py",
  '''        c_helper="get_from_object_{flat_name}_list",''',
  '''        c_helper="get_from_object_{c_type}_list",''', "fire", "c_type")
V("C05", "C05.R20", "c05-flat-t-from-name", "shroud/wrapf.py",
  '''                fmt.flat_T = ntypemap.flat_name''',
  '''                fmt.flat_T = ntypemap.name''', "fire", "flat_T")
V("C08", "C08.R7", "c08-default-variants-before-instantiation", "shroud/generate.py",
  '''            if method.template_arguments:
                # Instantiate first: the variants for default arguments
                # are made from each instantiation.
                method._overloaded = True''',
  '''            if method._has_default_arg and method.template_arguments:
                self.has_default_args(method, ordered_functions)
            if method.template_arguments:
                # Instantiate first: the variants for default arguments
                # are made from each instantiation.
                method._overloaded = True''', "fire", "not-a-template")
V("C08", "C08.R7", "c08-instantiation-variants-unnamed", "shroud/generate.py",
  '''                            if not function.fmtdict.inlocal("function_suffix"):
                                function.fmtdict.function_suffix = "_{}".format(i)
                continue''',
  '''                            pass
                continue''', "fire", "variants-named")
V("C08", "C08.R7", "c08-instantiations-without-default-variants", "shroud/generate.py",
  '''                    if new._has_default_arg:
                        self.has_default_args(new, ordered_functions)
                    ordered_functions.append(new)
                    variants''',
  '''                    ordered_functions.append(new)
                    variants''', "fire", "default-variants")
V("C12", "C12.R9", "c12-splicer-code-merged-raw", "shroud/main.py",
  '''        util.update(splicers,
                    ast.listify_splicer_code(allinput["splicer_code"]))''',
  '''        util.update(splicers, allinput["splicer_code"])''', "fire", "splicer_code")
V("C16", "C16.R1", "c16-brief-written-whole", "shroud/util.py",
  '''            self.write_doxygen_lines(output, "\\\\brief ", docs["brief"])''',
  '''            output.append(self.doxygen_cont + " \\\\brief %s" % docs["brief"])''', "fire", "brief-lines")
V("C16", "C16.R1", "c16-helper-appends-whole-text", "shroud/util.py",
  '''        for line in lines:
            if closer == "*/":
                line = line.replace("*/", "* /")
            # "@": the text is the user's, a + at its end is not a directive.
            output.append("@" + self.doxygen_cont + " " + tag + line)
            tag = ""''',
  '''        output.append("@" + self.doxygen_cont + " " + tag + str(text).replace("*/", "* /"))''', "fire", "lines")
V("C16", "C16.R1", "c16-silent-splitlines", "shroud/util.py",
  '''        lines = str(text).expandtabs().split("\\n")
        if lines[-1] == "" and (len(lines) > 1 or not tag):
            lines.pop()  # remove trailing newline''',
  '''        lines = str(text).expandtabs().splitlines()
        if not lines and tag:
            lines = [""]''', "silent")

# ---------------------------------------------------------------------------
# rows 81-88
# ---------------------------------------------------------------------------
V("C08", "C08.R8", "c08-abstract-interface-first-wins", "shroud/wrapf.py",
  '''        if entry is not None and str(entry[2]) != str(arg):
            # Overloaded functions may have the same argument name
            # for different function pointers.
            name = name + fmt.function_suffix
            entry = fileinfo.f_abstract_interface.get(name)
''', '', "fire", "F_abstract_interface_subprogram_template")
V("C08", "C08.R8", "c08-silent-abstract-interface-suffix-in-template", "shroud/ast.py",
  '''F_abstract_interface_subprogram_template="{underscore_name}_{argname}"''',
  '''F_abstract_interface_subprogram_template="{underscore_name}{function_suffix}_{argname}"''', "silent")
V("C04", "C04.R15", "c04-direct-binding-label-from-attribute", "shroud/wrapc.py",
  '''            fmt_func.C_name = node.ast.get_name(use_attr=False)''',
  '''            fmt_func.C_name = node.ast.name''', "fire", "C_name")
V("C04", "C04.R15", "c04-silent-direct-binding-declarator-name", "shroud/wrapc.py",
  '''            fmt_func.C_name = node.ast.get_name(use_attr=False)''',
  '''            fmt_func.C_name = node.ast.get_name(False)''', "silent")
V("C01", "C01.G1", "c01-fortran-scope-kept-per-c-function", "shroud/wrapf.py",
  '''            fmt_arg = fmt_arg0["fmtf"] = util.Scope(fmt_func)
            fmt_arg.f_var = arg_name''',
  '''            fmt_arg = fmt_arg0.setdefault("fmtf", util.Scope(fmt_func))
            fmt_arg.f_var = arg_name''', "fire", "memo-scope-owner")
V("C03", "C03.R18", "c03-implied-only-in-last-case", "shroud/wrapp.py",
  '''                PY_code.extend(pre_call_case)''',
  '''                PY_code.extend(pre_call_code[:pre_call_len])''', "fire", "pre_call_code:tail")
V("C18", "C18.R8", "c18-subprogram-of-first-overload", "shroud/wrapl.py",
  '''            if not is_dtor:
                # Overloads may differ in having a result.
                CXX_subprogram = function.ast.get_subprogram()
''', '', "fire", "subprogram")
V("C18", "C18.R8", "c18-char-result-statements-missing", "shroud/wrapl.py",
  '''    dict(
        name="lua_char_*_result",
        mixin=[
            "lua_mixin_callfunction",
            "lua_mixin_push"
        ],
    ),
''', '', "fire", "lua_statements[char]:result")
V("C15", "C15.R9", "c15-enum-flag-not-tested", "shroud/wrapf.py",
  '''        for node in node.enums:
            if node.wrap.fortran:
                self.wrap_enum(None, node, fileinfo)''',
  '''        for node in node.enums:
            self.wrap_enum(None, node, fileinfo)''', "fire", "wrap_enum")
V("C15", "C15.R9", "c15-enum-flag-of-other-wrapper", "shroud/wrapp.py",
  '''            if enum.wrap.python:
                self.wrap_enum(enum)''',
  '''            if enum.wrap.c:
                self.wrap_enum(enum)''', "fire", "wrap_enum")
V("C15", "C15.R9", "c15-silent-enum-flag-early-return", "shroud/wrapc.py",
  '''        for node in node.enums:
            if node.wrap.c:
                self.wrap_enum(None, node)''',
  '''        for node in node.enums:
            if not node.wrap.c:
                continue
            self.wrap_enum(None, node)''', "silent")
V("C15", "C15.R9", "c15-setter-flags-of-class", "shroud/generate.py",
  '''        fcn.ast.params[0].metaattrs["intent"] = "in"
        fcn.wrap.assign(c=var.wrap.c, fortran=var.wrap.fortran)''',
  '''        fcn.ast.params[0].metaattrs["intent"] = "in"
        fcn.wrap.lua = False
        fcn.wrap.python = False''', "fire", "flags-of-variable")
V("C15", "C15.R9", "c15-descriptor-always-written", "shroud/wrapp.py",
  '''            if var.wrap.python:
                self.wrap_class_variable(node, var, fileinfo)''',
  '''            self.wrap_class_variable(node, var, fileinfo)''', "fire", "wrap_class_variable")

# ---------------------------------------------------------------------------
# rows 89-93
# ---------------------------------------------------------------------------
V("C03", "C03.R19", "c03-submodule-init-skips-enums", "shroud/wrapp.py",
  '''        output.extend(modinfo.type_object_creation)
        output.extend(self.enum_impl)
        if modinfo.call_arraydescr:
            output.append("")
            output.append("// Define PyArray_Descr for structs")
            output.extend(modinfo.call_arraydescr)
        append_format(output, submodule_end, fmt)''',
  '''        output.extend(modinfo.type_object_creation)
        if modinfo.call_arraydescr:
            output.append("")
            output.append("// Define PyArray_Descr for structs")
            output.extend(modinfo.call_arraydescr)
        append_format(output, submodule_end, fmt)''', "fire", "write_init_submodule")
V("C03", "C03.R19", "c03-enum-list-not-per-module", "shroud/wrapp.py",
  '''        enum_impl_outer = self.enum_impl
        self.enum_impl = []
''', '''        enum_impl_outer = self.enum_impl
''', "fire", "per-module")
V("C03", "C03.R20", "c03-list-twin-removed", "shroud/wrapp.py",
  '''    dict(
        name="py_native_*_result_allocatable_list",
        base="py_native_*_result_pointer_list",
    ),
''', '', "fire", "py_native_*_result_allocatable")
V("C02", "C02.R16", "c02-reference-result-dereferenced", "shroud/statements.py",
  '''    elif local_var == "pointer":
        if arg.is_indirect():
            return ""''',
  '''    elif local_var == "pointer":
        if arg.is_pointer():
            return ""''', "fire", "compute_return_prefix")
V("C02", "C02.R16", "c02-silent-reference-or-pointer", "shroud/statements.py",
  '''    elif local_var == "pointer":
        if arg.is_indirect():
            return ""''',
  '''    elif local_var == "pointer":
        if arg.is_pointer() or arg.is_reference():
            return ""''', "silent")
V("C02", "C02.R16", "c02-const-conversion-uncast", "shroud/wrapc.py",
  '''                    if result_typemap.base == "string" and not CXX_ast.const:
                        # c_str() is const, the declared result is not.
                        fmt_result.c_val = "const_cast<char *>\\t({})".format(
                            fmt_result.c_val)
''', '', "fire", "cxx_to_c:const")
V("C14", "C14.R11", "c14-this-call-per-class-only", "shroud/wrapc.py",
  '''                    # CXX_this may be set for this function only.
                    fmt_func.CXX_this_call = fmt_func.CXX_this + "->"
''', '', "fire", "CXX_this_call")


# ---------------------------------------------------------------------------
# rows 94-102
# ---------------------------------------------------------------------------
V("C03", "C03.R1", "c03-unsigned-parsed-signed", "shroud/typemap.py",
  '''            f_module=dict(iso_c_binding=["C_LONG_LONG"]),
            PY_format="K",
            # #- PY_ctor='PyInt_FromLong({ctor_expr})',''',
  '''            f_module=dict(iso_c_binding=["C_LONG_LONG"]),
            PY_format="L",
            # #- PY_ctor='PyInt_FromLong({ctor_expr})',''', "fire", "signedness")
V("C14", "C14.R3", "c14-block-without-nodename", "shroud/ast.py",
  '''        # The declarations of a block are in the scope the block is in.
        self.nodename = parent.nodename
''', '', "fire", "parent-attribute:nodename")
V("C17", "C17.G1", "c17-attribute-after-clearing", "shroud/wrapp.py",
  '''                self.document_stmts(output, ast, stmt0, stmt1)
            append_format(
                output,
                "static int {PY_setter}("''',
  '''                self.document_stmts(output, ast, stmt0, intent_blk.name)
            append_format(
                output,
                "static int {PY_setter}("''', "fire", "none-then-attribute")
V("C17", "C17.R11", "c17-empty-template-parameter-list", "shroud/declast.py",
  '''        if self.token.typ == "GT":
            # template<> (explicit specialization)
            self.error_msg("Expected a template parameter, found GT")
''', '', "fire", "empty-parameter-list")
V("C17", "C17.R1", "c17-lookup-raises-bare", "shroud/ast.py",
  '''        Nodes which are not a scope (typedef, function, variable)
        have no members.
        """
        return None''',
  '''        Nodes which are not a scope (typedef, function, variable)
        have no members.
        """
        raise NotImplementedError''', "fire", "bare")
V("C12", "C12.R4", "c12-duplicate-test-full-tag", "shroud/splicer.py",
  '''                    if begin_subtag in top:''',
  '''                    if end_tag in top:''', "fire", "duplicate-test-key")
V("C12", "C12.R6", "c12-user-code-tabs-kept", "shroud/util.py",
  '''            out.extend(self._user_code(force))''',
  '''            out.extend(force)''', "fire", "tabs")
V("C12", "C12.R6", "c12-tab-filter-strips", "shroud/util.py",
  '''                for subline in line.expandtabs().split("\\n"):''',
  '''                for subline in line.expandtabs().strip().split("\\n"):''', "fire", "")
V("C16", "C16.R1", "c16-doxygen-tabs-kept", "shroud/util.py",
  '''        lines = str(text).expandtabs().split("\\n")''',
  '''        lines = str(text).split("\\n")''', "fire", "tabs-of-text")
V("C17", "C17.R15", "c17-helper-lookup-unchecked", "shroud/wrapf.py",
  '''            if helper not in whelpers.FHelpers:
                raise RuntimeError(
                    "No Fortran helper '{}': the type is not supported "
                    "by the statements '{}'".format(helper, helpers))
''', '', "fire", "FHelpers")


# ---------------------------------------------------------------------------
# rows 103-121
# ---------------------------------------------------------------------------
V("C12", "C12.R6", "c12-user-code-not-literal", "shroud/util.py",
  '''                for subline in line.expandtabs().split("\\n"):
                    if subline and subline[0] != "#":
                        subline = "@" + subline
                    out.append(subline)''',
  '''                for subline in line.expandtabs().split("\\n"):
                    out.append(subline)''', "fire", "write_lines:default:subline[:-1]")
V("C12", "C12.R6", "c12-user-code-marks-fewer-lines", "shroud/util.py",
  '''                    if subline and subline[0] != "#":
                        subline = "@" + subline''',
  '''                    if subline and subline[0] not in "#/":
                        subline = "@" + subline''', "fire", "write_lines:default:subline[:-1]")
V("C12", "C12.R6", "c12-doxygen-text-not-literal", "shroud/util.py",
  '''            output.append("@" + self.doxygen_cont + " " + tag + line)''',
  '''            output.append(self.doxygen_cont + " " + tag + line)''', "fire", "write_lines:default:subline[:-1]")
V("C12", "C12.R6", "c12-user-code-loop-variable-renamed", "shroud/util.py",
  '''                for subline in line.expandtabs().split("\\n"):
                    if subline and subline[0] != "#":
                        subline = "@" + subline
                    out.append(subline)''',
  '''                for piece in line.expandtabs().split("\\n"):
                    if piece and piece[0] != "#":
                        piece = "@" + piece
                    out.append(piece)''', "silent", None)
V("C03", "C03.R6", "c03-dispatch-counts-all-parameters", "shroud/wrapp.py",
  '''                        "if (SHT_nargs == %d) {+" % py_count_args(params)''',
  '''                        "if (SHT_nargs == %d) {+" % len(params)''', "fire", "multi_dispatch:arity")
V("C03", "C03.R6", "c03-dispatch-count-ignores-hidden", "shroud/wrapp.py",
  '''        if arg.attrs["implied"] or arg.attrs["hidden"]:
            continue
        if arg.metaattrs["intent"] in ["in", "inout"]:
            nargs += 1
    return nargs''',
  '''        if arg.attrs["implied"]:
            continue
        if arg.metaattrs["intent"] in ["in", "inout"]:
            nargs += 1
    return nargs''', "fire", "multi_dispatch:arity")


def RV(prop, rule, vid, sha, construct=""):
    """the reverse of a repair commit of /repo (selftest/reverts/<sha>.diff, written when the repair was recorded):
    the defect is back, the rule written for it must report it"""
    import os
    from selftest.harness import _hunks
    with open(os.path.join(os.path.dirname(os.path.abspath(__file__)), "reverts", sha + ".diff")) as fp:
        edits = _hunks(fp.read())
    VARIANTS.append(dict(property=prop, rule=rule, id=vid, edits=edits, expect="fire", construct=construct))


RV("C17", "C17.R16", "c17-namespace-variables-unchecked", "3849328", "node.variables")
RV("C05", "C05.R18", "c05-destructor-file-misses-type-header", "d5e84ac", "add_capsule_code")
RV("C18", "C18.R9", "c18-unnamed-state-parameter-in-c", "14aabbc", "unnamed-state-parameter")
RV("C15", "C15.G1", "c15-identity-test-on-flags", "c3b6f5b", "identity-test-on-option")
RV("C13", "C13.R7", "c13-enumerator-line-without-hints", "5d811b3", "parameter-line")
RV("C05", "C05.R22", "c05-submodule-file-misses-declarations", "fa70a1b", "")
RV("C17", "C17.G1", "c17-default-order-flag-never-set", "d704c79", "dead-validation-flag")
RV("C17", "C17.R13", "c17-patterns-group-unchecked", "7c19f76", "patterns")
RV("C17", "C17.R11", "c17-void-parameter-accepted", "333dcc6", "")
RV("C17", "C17.R11", "c17-empty-template-argument-list", "abf1602", "")
RV("C14", "C14.G1", "c14-attrs-after-generic-copies", "de62eb2", "snapshot-before-update")
RV("C18", "C18.R10", "c18-state-name-hard-coded", "526f4ec", "state-argument")
RV("C08", "C08.R3", "c08-generic-default-suffix-repeats", "befaf7a", "")
V("C14", "C14.R13", "c14-enum-format-dropped-2", "shroud/ast.py",
  '''        if format:
            fmt_enum.update(format, replace=True)
''', '', "fire", "EnumNode.__init__:format")
V("C14", "C14.R13", "c14-variable-format-dropped-2", "shroud/ast.py",
  '''        if format:
            fmt_var.update(format, replace=True)
''', '', "fire", "VariableNode.__init__:format")
V("C14", "C14.R10", "c14-enum-format-before-defaults", "shroud/ast.py",
  '''        self.fmtdict = util.Scope(parent=parent.fmtdict)

        if not decl:
            raise RuntimeError("EnumNode missing decl")''',
  '''        self.fmtdict = util.Scope(parent=parent.fmtdict)
        if format:
            self.fmtdict.update(format, replace=True)
            format = None

        if not decl:
            raise RuntimeError("EnumNode missing decl")''', "fire", "EnumNode.__init__:format-last")
V("C14", "C14.R13", "c14-typedef-format-dropped", "shroud/ast.py",
  '''        self.fmtdict = util.Scope(parent=parent.fmtdict)
        if format:
            self.fmtdict.update(format, replace=True)

        self.ast = ast
''', '''        self.fmtdict = util.Scope(parent=parent.fmtdict)

        self.ast = ast
''', "fire", "TypedefNode.__init__:format")
RV("C17", "C17.G1", "c17-typemap-type-unchecked", "398fcff", "required-key-presence-only")
V("C08", "C08.R9", "c08-expose-chain-respelled", "shroud/wrapp.py",
  '''        if len(self.overloaded_methods[ast.name]) > 1:
            # Only expose a multi-dispatch name, not each overload
            expose = False
        elif found_default:''',
  '''        if len(self.overloaded_methods[ast.name]) >= 2:
            # Only expose a multi-dispatch name, not each overload
            expose = False
        elif found_default:''', "silent")
V("C01", "C01.R9", "c01-pure-condition-regrouped", "shroud/wrapf.py",
  '''            is_pure or (func_is_const and args_all_in)''',
  '''            (is_pure or func_is_const) and (is_pure or args_all_in)''', "silent")
V("C10", "C10.R9", "c10-wrapper-body-two-steps", "shroud/wrapc.py",
  '''            C_code = pre_call + call_code + post_call_pattern + \\
                     post_call + final_code + return_code''',
  '''            C_code = pre_call + call_code + post_call_pattern + \\
                     post_call + (final_code + return_code)''', "silent")
RV("C17", "C17.R19", "c17-unknown-suffix-ignored", "d53e8e3", "unknown-suffix")
RV("C15", "C15.R11", "c15-file-written-twice", "bda8141", "written-once")
RV("C16", "C16.R11", "c16-comment-closer-in-text", "e7a1fec", "comment-closer")
RV("C18", "C18.R12", "c18-void-pointer-result-not-pushed", "f492a30", "pushes-result")
RV("C03", "C03.R26", "c03-raw-pointer-as-object", "651ff15", "object-format-takes-object")
RV("C17", "C17.R20", "c17-base-class-is-a-namespace", "a79d91d", "base-is-a-class")
RV("C17", "C17.R21", "c17-variable-dimension-without-value", "929f2c0", "dimension-without-value")
RV("C18", "C18.R13", "c18-result-cast-in-c-library", "4ec5a49", "cxx_to_c-for-c-library")
RV("C14", "C14.R16", "c14-instantiation-options-unused", "257e19b", "targs.options")
RV("C15", "C15.R12", "c15-instantiation-wrap-flags-stale", "09b257b", "wrap-after-options")
RV("C03", "C03.R1", "c03-unsigned-result-through-signed-ctor", "958fdd3", "PY_ctor:signedness")
RV("C08", "C08.G1", "c08-clone-shares-generic-list", "9dcb1f7", "shallow-clone-shares-list")
