"""C11 - enumeration constants keep their C++ values in C and Fortran."""
import ast
import re

from sa import pattern as pat, pyflow
from sa.consteval import Evaluator, is_unknown
from sa.loader import parent_chain, AnalysisError, enclosing_function

EXPLANATION = (
    "Twin-computation and grammar analysis of ast.EnumNode.__init__: (R1) every assignment to the C "
    "running value has a Fortran twin with the same right-hand side up to C_enum_member/F_enum_member "
    "and cbase/fbase, F_value is stored for every member and C_value only for explicit ones; (R2) the "
    "successor rule adds the literal 1 ([dcl.enum]) and restarts after explicit values; (R3) the "
    "textual successor template base+incr is value-preserving for every operator the expression "
    "grammar can put at the top of base (checked against OPINFO_MAP); (R4) the accepted operators "
    "have identical integer semantics in C and Fortran (frozen table); (R5) identifiers in value "
    "expressions are rewritten through the per-member symbol table, which is complete before any "
    "value is evaluated; (R6) the C and Fortran emitters format exactly the keys the node writes.")
NOT_DECIDED = ("The numeric values a C++ compiler assigns, and arithmetic correctness of an arbitrary "
               "rewrite of the value computation.")

SAME_SEMANTICS = {"+", "-", "*", "/"}       # integer ops identical in C and Fortran (trunc toward zero)


def _norm(s):
    return re.sub(r"\s+", "", s)


def run(repo, run, tier):
    am = repo.module("ast")
    dm = repo.module("declast")
    f = am.func("EnumNode.__init__")
    R1 = run.rule("C11.R1", "C and Fortran running values are computed by twin assignments")
    R2 = run.rule("C11.R2", "successor rule: previous + 1, restart after explicit values")
    R3 = run.rule("C11.R3", "textual successor template is precedence-safe for the accepted grammar")
    R4 = run.rule("C11.R4", "accepted operators have the same integer semantics in C and Fortran")
    R5 = run.rule("C11.R5", "identifier rewriting through a complete per-member table")
    R6 = run.rule("C11.R6", "emitters format the keys the node writes")

    loops = [n for n in f.body if isinstance(n, ast.For)]
    member_loops = [l for l in loops if "members" in am.seg(l.iter)]
    if len(member_loops) != 2:
        raise AnalysisError("C11: expected two loops over ast.members in EnumNode.__init__, found %d" % len(member_loops))
    name_loop, value_loop = member_loops

    # ---- R5 part 1: names first
    stores = [n for n in ast.walk(name_loop) if isinstance(n, ast.Assign) and isinstance(n.targets[0], ast.Subscript)]
    table = pyflow.dotted(stores[0].targets[0].value) if stores else None
    run.check(R5, "ast.EnumNode.__init__:names-before-values", table is not None and name_loop.lineno < value_loop.lineno,
              "the member name table must be filled for all members before any value expression is evaluated",
              am.loc(name_loop), sample=dict(table=table))
    for key in ("C_enum_member", "F_enum_member"):
        a = [n for n in ast.walk(name_loop) if isinstance(n, ast.Assign) and (pyflow.dotted(n.targets[0]) or "").endswith("." + key)]
        ok = len(a) == 1 and key + "_template" in am.seg(a[0].value)
        run.check(R5, "ast.EnumNode.__init__:%s" % key, ok,
                  "%s must be formatted from options.%s_template" % (key, key), am.loc(name_loop))

    # the member table belongs to this enumeration: a fresh dict per node, no class-level containers
    tabname = table.split(".")[-1] if table else None
    fresh = [a for a in ast.walk(f) if isinstance(a, ast.Assign) and tabname and pyflow.is_name(a.targets[0], tabname)]
    ecls = am.cls("EnumNode")
    shared = [am.seg(st) for st in ecls.body if isinstance(st, ast.Assign) and isinstance(st.value, (ast.Dict, ast.List, ast.Set, ast.Call))]
    run.check(R5, "ast.EnumNode:own-member-table", len(fresh) == 1 and isinstance(fresh[0].value, ast.Dict) and not fresh[0].value.keys
              and not shared,
              "the per-member format table must be a fresh dict created in __init__ (found %s; class-level containers %s): "
              "a shared table lets a later enumeration with the same member names overwrite the names and values of an "
              "earlier one" % ([am.seg(a) for a in fresh], shared), am.loc(f))
    # ---- R1 twin assignments in the value loop
    def assigns_to(name, root):
        out = []
        for n in ast.walk(root):
            if isinstance(n, ast.Assign) and len(n.targets) == 1 and pyflow.is_name(n.targets[0], name):
                out.append(n)
        return out
    cas = assigns_to("cvalue", value_loop)
    fas = assigns_to("fvalue", value_loop)
    augs = [n for n in ast.walk(value_loop) if isinstance(n, ast.AugAssign) and pyflow.is_name(n.target, "cvalue")]
    run.floor(R1, "assignments to the C running value", len(cas) + len(augs), 4)
    for au in augs:
        blk = None
        p = au._parent
        for fld in ("body", "orelse"):
            l = getattr(p, fld, None)
            if isinstance(l, list) and any(x is au for x in l):
                blk = l
        tw = [x for x in (blk or []) if isinstance(x, ast.Assign) and pyflow.is_name(x.targets[0], "fvalue")
              and pyflow.is_name(x.value, "cvalue")]
        tw += [x for x in (blk or []) if isinstance(x, ast.AugAssign) and pyflow.is_name(x.target, "fvalue")
               and ast.dump(x.value) == ast.dump(au.value) and type(x.op) is type(au.op)]
        run.check(R1, "ast.EnumNode.__init__:cvalue%s=%s" % (type(au.op).__name__, _norm(am.seg(au.value))), bool(tw),
                  "no Fortran twin for the in-place update of the C running value", am.loc(au))

    def block_of(n):
        p = n._parent
        for fld in ("body", "orelse", "finalbody"):
            l = getattr(p, fld, None)
            if isinstance(l, list) and any(x is n for x in l):
                return l
        if isinstance(p, ast.ExceptHandler):
            return p.body
        return None
    for ca in cas:
        blk = block_of(ca)
        twins = [fa for fa in fas if block_of(fa) is blk]
        if not twins:
            # `fvalue = cvalue` placed after the if/else that holds the C assignment (same path, enclosing block)
            holder = ca._parent
            while holder is not None and not isinstance(holder, (ast.For, ast.FunctionDef)):
                hb = block_of(holder) if isinstance(holder, ast.stmt) else None
                if hb is not None:
                    later = [fa for fa in fas if block_of(fa) is hb and fa.lineno > holder.lineno
                             and pyflow.is_name(fa.value, "cvalue")]
                    if later:
                        twins = later
                        break
                holder = getattr(holder, "_parent", None)
        construct = "ast.EnumNode.__init__:cvalue=%s" % _norm(am.seg(ca.value))[:50]
        if not twins:
            run.check(R1, construct, False, "no Fortran twin assignment in the same block", am.loc(ca))
            continue
        fa = twins[0]
        cs = _norm(am.seg(ca.value))
        fs = _norm(am.seg(fa.value))
        want = cs.replace("C_enum_member", "F_enum_member").replace("cbase", "fbase")
        ok = fs == want or fs == "cvalue"
        run.check(R1, construct, ok,
                  "Fortran twin is %r, expected %r (or `cvalue`)" % (am.seg(fa.value), want), am.loc(fa),
                  sample=dict(c=am.seg(ca.value), fortran=am.seg(fa.value)))
    # bases
    cb = assigns_to("cbase", value_loop)
    fb = assigns_to("fbase", value_loop)
    run.check(R1, "ast.EnumNode.__init__:bases", len(cb) == 1 and len(fb) == 1 and
              _norm(am.seg(cb[0].value)) == "cvalue" and _norm(am.seg(fb[0].value)) == "fvalue",
              "cbase/fbase must capture the C / Fortran text of the explicit expression respectively", am.loc(value_loop))
    # stores
    fv = [n for n in ast.walk(value_loop) if isinstance(n, ast.Assign) and (pyflow.dotted(n.targets[0]) or "").endswith(".F_value")]
    cv = [n for n in ast.walk(value_loop) if isinstance(n, ast.Assign) and (pyflow.dotted(n.targets[0]) or "").endswith(".C_value")]
    ok = len(fv) == 1 and pyflow.is_name(fv[0].value, "fvalue") and not pyflow.dominating_tests(fv[0], stop=value_loop)
    run.check(R1, "ast.EnumNode.__init__:F_value", ok,
              "F_value must be stored for every member (Fortran has no implicit enumerator values)", am.loc(value_loop),
              sample=dict(store=am.seg(fv[0]) if fv else None))
    okc = len(cv) == 1 and pyflow.is_name(cv[0].value, "cvalue") and any(
        "value is not None" in am.seg(t) and p for t, p in pyflow.dominating_tests(cv[0], stop=value_loop))
    run.check(R1, "ast.EnumNode.__init__:C_value", okc,
              "C_value must be stored exactly when the member has an explicit value", am.loc(value_loop))
    # the int() fast path evaluates the printed C++ expression
    ints = [n for n in ast.walk(value_loop) if isinstance(n, ast.Call) and pyflow.is_name(n.func, "int")]
    lit_names = set(a.targets[0].id for a in ast.walk(value_loop) if isinstance(a, ast.Assign)
                    and isinstance(a.targets[0], ast.Name) and "print_node(member.value)" in am.seg(a.value))
    ok = bool(ints) and all("print_node(member.value)" in am.seg(c.args[0]) or
                            (isinstance(c.args[0], ast.Name) and c.args[0].id in lit_names) for c in ints)
    run.check(R1, "ast.EnumNode.__init__:int-literal", ok,
              "integer literals must be taken from the parsed value expression", am.loc(value_loop))
    # C++ radix: a literal with a leading 0 is octal
    octal = [c for c in ints if len(c.args) == 2 and isinstance(c.args[1], ast.Constant) and c.args[1].value == 8]
    # the sign is peeled before the leading digit is looked at: the test is on the stripped text
    stripped = set(env["D"] for _, env in pat.find(value_loop, "MV_D = MV_L.lstrip('+-')"))
    guarded = any(any(("%s[0] == '0'" % d) in am.seg(t) for d in stripped)
                  for c in octal for t, pol in pyflow.dominating_tests(c, stop=value_loop) if pol)
    run.check(R1, "ast.EnumNode.__init__:octal-literal", bool(octal) and guarded,
              "an enumerator literal with a leading 0 is octal in C++ (`A = 010` is 8): evaluating it with int(text) "
              "gives 10 in the C header and the Fortran parameter", am.loc(value_loop))

    # ---- R2 (mode flag): the variable that selects integer / symbolic successor computation is loop-carried;
    # each way of evaluating an explicit value must (re-)establish it, otherwise the mode of an earlier
    # member leaks into the members after a later explicit value
    sel = [n for n in ast.walk(value_loop) if isinstance(n, ast.If) and isinstance(pyflow.if_arms(n)[0], ast.Name)
           and any(isinstance(x, ast.Assign) and pyflow.is_name(x.targets[0], "cvalue") for x in ast.walk(n))]
    if len(sel) != 1:
        raise AnalysisError("C11.R2: successor selection `if <flag>:` not found")
    flag = pyflow.if_arms(sel[0])[0].id
    tries = [n for n in ast.walk(value_loop) if isinstance(n, ast.Try)]
    if len(tries) != 1:
        raise AnalysisError("C11.R2: expected one try/except evaluating the explicit value")
    tr = tries[0]

    def flag_consts(stmts):
        return [x.value.value for st in stmts for x in ast.walk(st) if isinstance(x, ast.Assign)
                and pyflow.is_name(x.targets[0], flag) and isinstance(x.value, ast.Constant)]
    in_try = flag_consts(tr.body + tr.orelse)
    in_exc = [flag_consts(h.body) for h in tr.handlers]
    run.check(R2, "ast.EnumNode.__init__:%s@literal" % flag, in_try == [True],
              "an integer-literal value must switch the successor rule to integer mode (`%s = True`); found %s: "
              "members after `X = <expr>, Y = 100, Z` continue the old symbolic base" % (flag, in_try), am.loc(tr),
              sample=dict(flag=flag, literal_arm=in_try, symbolic_arm=in_exc))
    run.check(R2, "ast.EnumNode.__init__:%s@symbolic" % flag, all(x == [False] for x in in_exc) and bool(in_exc),
              "a symbolic value must switch the successor rule to symbolic mode (`%s = False`); found %s" % (flag, in_exc),
              am.loc(tr))
    init = [n for n in f.body if isinstance(n, ast.Assign) and pyflow.is_name(n.targets[0], flag)]
    run.check(R2, "ast.EnumNode.__init__:%s@start" % flag, len(init) == 1 and isinstance(init[0].value, ast.Constant)
              and init[0].value.value is True and init[0].lineno < value_loop.lineno,
              "enumerations start in integer mode (first implicit value 0)", am.loc(f))
    # the symbolic arm restarts its increment and captures the bases
    for h in tr.handlers:
        z = [x for st in h.body for x in ast.walk(st) if isinstance(x, ast.Assign) and pyflow.is_name(x.targets[0], "incr")
             and isinstance(x.value, ast.Constant) and x.value.value == 0]
        run.check(R2, "ast.EnumNode.__init__:incr-restart", len(z) == 1,
                  "the increment must restart at 0 for every symbolic explicit value", am.loc(h))

    # ---- R2 successor rule
    incs = []
    for n in ast.walk(value_loop):
        if isinstance(n, ast.Assign) and pyflow.is_name(n.targets[0], "cvalue") and isinstance(n.value, ast.BinOp) \
                and isinstance(n.value.op, ast.Add) and pyflow.is_name(n.value.left, "cvalue"):
            incs.append(("cvalue", n, n.value.right))
        if isinstance(n, ast.AugAssign) and isinstance(n.target, ast.Name) and n.target.id in ("cvalue", "fvalue", "incr"):
            incs.append((n.target.id, n, n.value if isinstance(n.op, ast.Add) else None))
    run.floor(R2, "increment sites", len(incs), 2)
    for name, node, amount in incs:
        ok = isinstance(amount, ast.Constant) and amount.value == 1
        run.check(R2, "ast.EnumNode.__init__:%s increment" % name, ok,
                  "the implicit successor must be previous + 1, found %s" % am.seg(node), am.loc(node),
                  sample=dict(stmt=am.seg(node)))
    zero = [n for n in assigns_to("incr", value_loop) if isinstance(n.value, ast.Constant)]
    run.check(R2, "ast.EnumNode.__init__:incr restart", len(zero) == 1 and zero[0].value.value == 0 and
              any(isinstance(p, ast.ExceptHandler) for p in _parents(zero[0])),
              "after an explicit expression the increment counter must restart at 0", am.loc(value_loop))
    init = [n for n in f.body if isinstance(n, ast.Assign) and pyflow.is_name(n.targets[0], "cvalue")]
    run.check(R2, "ast.EnumNode.__init__:first value", len(init) == 1 and isinstance(init[0].value, ast.Constant)
              and init[0].value.value == 0, "the first implicit enumerator is 0", am.loc(f))

    # ---- R3 precedence-safety of "{}+{}".format(base, incr)
    fmts = [n for n in ast.walk(value_loop) if isinstance(n, ast.Call) and isinstance(n.func, ast.Attribute)
            and n.func.attr == "format" and pyflow.const_str(n.func.value) is not None]
    ev = Evaluator(dm)
    opinfo = {}
    node = dm.toplevel_assign("OPINFO_MAP")
    if not isinstance(node, ast.Dict):
        raise AnalysisError("C11: OPINFO_MAP is not a dict literal")
    for k, v in zip(node.keys, node.values):
        op = pyflow.const_str(k)
        if isinstance(v, ast.Call) and len(v.args) == 2:
            opinfo[op] = (v.args[0].value, pyflow.const_str(v.args[1]))
    if len(opinfo) < 4:
        raise AnalysisError("C11: OPINFO_MAP has fewer than four operators")
    run.floor(R3, "successor templates", len(fmts), 2)
    for fm in fmts:
        t = pyflow.const_str(fm.func.value)
        m = re.match(r"^\{\}(.)\{\}$", t)
        construct = "ast.EnumNode.__init__:successor %r" % t
        if not m:
            run.check(R3, construct, t.startswith("({})") or t.startswith("({"),
                      "successor template %r is neither `{}+{}` nor parenthesised" % t, am.loc(fm))
            continue
        joiner = m.group(1)
        if joiner not in opinfo:
            run.check(R3, construct, False, "successor joins with %r which is not in the expression grammar" % joiner, am.loc(fm))
            continue
        jp = opinfo[joiner][0]
        loose = sorted(op for op, (prec, assoc) in opinfo.items() if prec < jp)
        nonleft = sorted(op for op, (prec, assoc) in opinfo.items() if prec == jp and assoc != "LEFT")
        run.check(R3, construct, not loose and not nonleft and joiner == "+",
                  "the grammar accepts operator(s) %s that bind looser than %r: `base%s1` would re-associate an "
                  "explicit value such as `A %s B`" % (loose + nonleft, joiner, joiner, (loose + nonleft + ["?"])[0]),
                  am.loc(fm), sample=dict(template=t, grammar=opinfo))
    # ---- R4 frozen operator table
    for op in sorted(opinfo):
        run.check(R4, "declast.OPINFO_MAP[%s]" % op, op in SAME_SEMANTICS,
                  "operator %r is accepted in enum value expressions but is not in the table of operators with "
                  "identical C and Fortran integer semantics" % op, dm.loc(node), sample=dict(op=op))
    want_prec = {"+": 1, "-": 1, "*": 2, "/": 2}
    for op, (prec, assoc) in sorted(opinfo.items()):
        if op in want_prec:
            rel_ok = all((prec > opinfo[o][0]) == (want_prec[op] > want_prec[o])
                         for o in opinfo if o in want_prec)
            run.check(R4, "declast.OPINFO_MAP[%s].precedence" % op, rel_ok and assoc == "LEFT",
                      "precedence/associativity of %r differs from C++" % op, dm.loc(node))
    prim = dm.func("ExprParser.primary")
    unary = []
    for n in ast.walk(prim):
        if isinstance(n, ast.Compare) and isinstance(n.ops[0], ast.In) and isinstance(n.comparators[0], ast.List):
            vals = [pyflow.const_str(e) for e in n.comparators[0].elts]
            if "PLUS" in vals or "MINUS" in vals:
                unary = vals
    run.check(R4, "declast.ExprParser.primary:unary", sorted(unary) == ["MINUS", "PLUS"],
              "unary operators accepted are %s; only + and - have identical meaning in Fortran" % unary, dm.loc(prim))
    expr = dm.func("ExprParser.expression")
    run.check(R4, "declast.ExprParser.expression:left-assoc", "prec + 1 if assoc == \"LEFT\" else prec" in dm.seg(expr),
              "left-associative operators must recurse with prec+1", dm.loc(expr))

    # ---- R5 part 2: PrintNodeIdentifier
    tm = repo.module("todict")
    vi = tm.func("PrintNodeIdentifier.visit_Identifier")
    s = _norm(tm.seg(vi))
    run.check(R5, "todict.PrintNodeIdentifier.visit_Identifier", "self.symbols[node.name][self.key]" in s and
              "ifnode.nameinself.symbols" in s and "returnnode.name" in s,
              "plain identifiers must be substituted through symbols[name][key] and otherwise kept", tm.loc(vi))
    calls = [n for n in ast.walk(value_loop) if isinstance(n, ast.Call) and (pyflow.call_name(n) or "").endswith("print_node_identifier")]
    keys = sorted(pyflow.const_str(c.args[2]) for c in calls if len(c.args) == 3)
    run.check(R5, "ast.EnumNode.__init__:rewrite-keys", keys == ["C_enum_member", "F_enum_member"] and
              all(pyflow.is_name(c.args[1], table.split(".")[-1] if table else "") for c in calls),
              "value expressions must be rewritten once with C_enum_member and once with F_enum_member using the "
              "member table; found %s" % keys, am.loc(value_loop), sample=dict(keys=keys))
    # the rewriter sees exactly the member table of the enumeration being evaluated
    pn = tm.func("print_node_identifier")
    params = [a.arg for a in pn.args.args]
    ctor = [c for c in ast.walk(pn) if isinstance(c, ast.Call) and pyflow.is_name(c.func, "PrintNodeIdentifier")]
    ok = len(ctor) == 1 and len(ctor[0].args) == 2 and len(params) >= 3 and \
        pyflow.is_name(ctor[0].args[0], params[1]) and pyflow.is_name(ctor[0].args[1], params[2]) and \
        not any(isinstance(x, (ast.Global, ast.Nonlocal)) for x in ast.walk(pn)) and \
        not [x for x in ast.walk(pn) if isinstance(x, ast.Name) and isinstance(x.ctx, ast.Load)
             and x.id not in params and x.id not in ("PrintNodeIdentifier", "visitor")
             and x.id not in [t.id for a in ast.walk(pn) if isinstance(a, ast.Assign) for t in a.targets if isinstance(t, ast.Name)]]
    run.check(R5, "todict.print_node_identifier:own-table", ok,
              "identifiers of a value expression must be resolved in the table passed by the caller (the enumeration's own "
              "members) and nothing else: a shared or remembered table resolves a name to a member of another enumeration",
              tm.loc(pn))
    # the parser builds BinaryOp from the operator token and the operand sub-expression as parsed (no rewriting)
    ex = dm.func("ExprParser.expression")
    b = [c for c in ast.walk(ex) if isinstance(c, ast.Call) and pyflow.is_name(c.func, "BinaryOp")]
    ok = len(b) == 1 and len(b[0].args) == 3 and all(isinstance(a, ast.Name) for a in b[0].args)
    if ok:
        lp = next((a for a in parent_chain(b[0]) if isinstance(a, (ast.While, ast.For))), None)
        for arg, want in ((b[0].args[1], "self.token.value"), (b[0].args[2], None)):
            asg = [a for a in ast.walk(lp) if isinstance(a, ast.Assign) and pyflow.is_name(a.targets[0], arg.id)]
            if len(asg) != 1:
                ok = False
            elif want and dm.seg(asg[0].value) != want:
                ok = False
            elif not want and not (isinstance(asg[0].value, ast.Call) and (pyflow.call_name(asg[0].value) or "") == "self.expression"):
                ok = False
    run.check(R5, "declast.ExprParser.expression:as-written", ok,
              "BinaryOp(lhs, op, rhs) must be built from the operator token and the parsed right operand exactly as "
              "written (each assigned once per iteration): rewriting `a + -b` or `a - -b` changes values", dm.loc(ex))
    # `enum class E` and `enum struct E` are both scoped enumerations: whatever keyword the parser consumes after `enum`
    # makes the enum scoped (its members are qualified with the enum's name in C and Fortran)
    es = dm.func("Parser.enum_statement")
    consumed, scoped = set(), set()
    for i_ in ast.walk(es):
        if isinstance(i_, ast.If):
            t_ = i_.test
            if isinstance(t_, ast.Call) and (pyflow.call_name(t_) or "") == "self.have" and t_.args and pyflow.const_str(t_.args[0]) in ("CLASS", "STRUCT"):
                consumed.add(pyflow.const_str(t_.args[0]))
                for a_ in i_.body:
                    if isinstance(a_, ast.Assign) and pyflow.is_name(a_.targets[0], "scope") and not (
                            isinstance(a_.value, ast.Constant) and a_.value.value is None):
                        scoped.add(pyflow.const_str(t_.args[0]))
            if isinstance(t_, ast.Compare) and str(dm.seg(t_.left)) == "self.token.typ" and isinstance(t_.ops[0], ast.In) \
                    and any((pyflow.call_name(c_) or "") == "self.next" for st_ in i_.body for c_ in ast.walk(st_) if isinstance(c_, ast.Call)):
                consumed.update(pyflow.const_str(e_) for e_ in t_.comparators[0].elts if pyflow.const_str(e_) in ("CLASS", "STRUCT"))
    for a_ in ast.walk(es):
        if isinstance(a_, ast.Assign) and pyflow.is_name(a_.targets[0], "scope") and isinstance(a_.value, ast.Call) \
                and isinstance(a_.value.func, ast.Attribute) and a_.value.func.attr == "get" and isinstance(a_.value.func.value, ast.Dict):
            scoped.update(pyflow.const_str(k_) for k_ in a_.value.func.value.keys)
    if not consumed:
        raise AnalysisError("C11.R5: the scope keywords of Parser.enum_statement are not recognised")
    run.check(R5, "declast.Parser.enum_statement:scoped", consumed <= scoped and {"CLASS", "STRUCT"} <= consumed,
              "after `enum` the parser consumes %s but only %s makes the enum scoped: the members of `enum struct E { A }` are "
              "emitted unqualified (`A` instead of `E_A`) and collide with equally named members of other enums"
              % (sorted(consumed), sorted(scoped)), dm.loc(es))
    # one token, one leaf: a Constant is the text of exactly one literal token (a sign stays a UnaryOp node - that node kind
    # is what the printer parenthesises and what the octal rules look through)
    pr = dm.func("ExprParser.primary")
    leaves = [c for c in ast.walk(pr) if isinstance(c, ast.Call) and pyflow.is_name(c.func, "Constant")]
    if not leaves:
        raise AnalysisError("C11.R5: construction of Constant nodes not found in ExprParser.primary")
    for c in leaves:
        arg = c.args[0] if c.args else None
        plain = arg is not None and dm.seg(arg) == "self.token.value"
        conds = pyflow.path_atoms(c, stop=pr, seg=dm.seg)
        run.check(R5, "declast.ExprParser.primary:Constant(%s)" % re.sub(r"\s+", "", str(dm.seg(arg)))[:30],
                  plain and not any("PLUS" in t or "MINUS" in t or "value ==" in t for t, p_ in conds if p_),
                  "a Constant is built from `%s` under %s: a literal leaf must be the text of the literal token alone; folding a "
                  "sign into it hides the unary operator from the printer (`a - -1` is printed `a--1`) and from the octal "
                  "rules (`-010`)" % (dm.seg(arg), sorted(conds)), dm.loc(c))
    # literals reach the evaluator exactly as written: the tokenizer never rewrites token text (a leading 0 is
    # what makes a literal octal)
    tk = dm.func("tokenize")
    vals = [a for a in ast.walk(tk) if isinstance(a, ast.Assign) and pyflow.is_name(a.targets[0], "val")]
    run.check(R5, "declast.tokenize:verbatim", len(vals) == 1 and dm.seg(vals[0].value) == "mo.group(typ)",
              "the token value is reassigned (%s): integer literals must be handed on verbatim, `010` rewritten to `10` "
              "changes the enumerator from 8 to 10" % [dm.seg(a) for a in vals], dm.loc(tk))
    # enumerator names get the scope prefix of the namespace they are in (the namespace's own flatten options decide)
    from checks import c14
    from sa.report import import_rules
    import_rules(run, R5, c14, repo, {"C14.R8"}, only=lambda c: c.startswith("ast.NamespaceNode"))
    # ... and the default name templates of enumerations and enumerators carry that prefix (C08.R2)
    from checks import c08
    import_rules(run, R5, c08, repo, {"C08.R2"}, only=lambda c: "enum" in c)
    # a printer hands the text of a constant on as it is: `int(text)` reads `010` as ten
    for q_, fn_ in sorted(tm.functions().items()):
        if not q_.endswith(".visit_Constant"):
            continue
        bad = []
        for c_ in ast.walk(fn_):
            if isinstance(c_, ast.Call) and pyflow.is_name(c_.func, "int") and len(c_.args) == 1 and not c_.keywords:
                conds = " ".join(t_ for t_, pol_ in pyflow.path_atoms(c_, stop=fn_, seg=ast.unparse))
                if "'0'" not in conds and '"0"' not in conds:
                    bad.append(ast.unparse(c_))
        run.check(R5, "todict.%s:verbatim" % q_, not bad,
                  "`%s` converts the text of a constant as a decimal number: a bare octal enumerator value (`GROUP = 010`) becomes 10 "
                  "in the C header and the Fortran module, C++ has 8" % (bad[0] if bad else ""), tm.loc(fn_))
    # Fortran has no C-style octal literals: when an expression is rewritten for Fortran they are printed in decimal
    pvc = [fn for q_, fn in tm.functions().items() if q_ == "PrintNodeIdentifier.visit_Constant"]
    okf = bool(pvc) and pat.has(pvc[0], "int(MV_V, 8)") and any("F_" in tm.seg(t) for n_ in ast.walk(pvc[0]) if isinstance(n_, ast.If)
                                                                for t in [n_.test])
    # ... and the test that selects the Fortran rendering is true for the key(s) the Fortran caller really passes
    keys = set()
    for c in ast.walk(am.tree):
        if isinstance(c, ast.Call) and (pyflow.call_name(c) or "").endswith("print_node_identifier") and len(c.args) >= 3:
            k_ = pyflow.const_str(c.args[2])
            if k_:
                keys.add(k_)
    if not keys:
        raise AnalysisError("C11.R5: no key is passed to print_node_identifier by ast.py")
    if not any(k_.startswith("F_") for k_ in keys):
        okf = False          # nobody asks for the Fortran rendering
    if okf:
        def key_test(test, key):
            """value of a conjunct that only looks at self.key (None: it looks at something else)"""
            t = tm.seg(test)
            if isinstance(test, ast.Call) and isinstance(test.func, ast.Attribute) and tm.seg(test.func.value) == "self.key" \
                    and test.func.attr in ("startswith", "endswith") and test.args and pyflow.const_str(test.args[0]) is not None:
                return getattr(key, test.func.attr)(pyflow.const_str(test.args[0]))
            if isinstance(test, ast.Compare) and len(test.ops) == 1 and tm.seg(test.left) == "self.key":
                rhs = test.comparators[0]
                if isinstance(test.ops[0], (ast.Eq, ast.NotEq)) and pyflow.const_str(rhs) is not None:
                    return (key == pyflow.const_str(rhs)) == isinstance(test.ops[0], ast.Eq)
                if isinstance(test.ops[0], (ast.In, ast.NotIn)) and isinstance(rhs, (ast.Tuple, ast.List, ast.Set)):
                    vals_ = [pyflow.const_str(e) for e in rhs.elts]
                    return (key in vals_) == isinstance(test.ops[0], ast.In)
            return None
        ifs = [n_ for n_ in ast.walk(pvc[0]) if isinstance(n_, ast.If) and "self.key" in tm.seg(n_.test)]
        for i_ in ifs:
            conj = i_.test.values if isinstance(i_.test, ast.BoolOp) and isinstance(i_.test.op, ast.And) else [i_.test]
            for key in sorted(keys):
                vals_ = [key_test(c_, key) for c_ in conj]
                fires = all(v for v in vals_ if v is not None)
                okf = okf and fires == key.startswith("F_")
    run.check(R5, "todict.PrintNodeIdentifier.visit_Constant:octal-for-Fortran", okf,
              "an octal literal inside a value expression (`A + 010`) must be printed in decimal for Fortran, which reads the "
              "digits 010 as ten", tm.loc(pvc[0]) if pvc else "shroud/todict.py")
    # printers are pure functions of the node and the visitor's table: the subclass that rewrites identifiers shares
    # them, so nothing may be remembered on the node or in the visitor between calls
    for q in ("PrintNode.visit_BinaryOp", "PrintNode.visit_UnaryOp", "PrintNode.visit_ParenExpr", "PrintNode.visit_Identifier",
              "PrintNodeIdentifier.visit_Identifier"):
        fn = tm.func(q)
        stores = [tm.seg(a) for a in ast.walk(fn) if isinstance(a, (ast.Assign, ast.AugAssign)) for t in
                  (a.targets if isinstance(a, ast.Assign) else [a.target]) if isinstance(t, (ast.Attribute, ast.Subscript))]
        memo = [tm.seg(c) for c in ast.walk(fn) if isinstance(c, ast.Call) and (pyflow.call_name(c) or "") in ("getattr", "setattr", "hasattr")]
        run.check(R5, "todict.%s:pure" % q, not stores and not memo,
                  "the printer stores or looks up state (%s): text printed for one language (raw C++ names) is reused where "
                  "identifiers must be rewritten for another" % (stores + memo)[:2], tm.loc(fn))
    # a token is captured before the parser advances past it
    nadv = 0
    for q, fn in sorted(dm.functions().items()):
        if not q.startswith(("ExprParser.", "Parser.")):
            continue
        for blk_owner in ast.walk(fn):
            for fld in ("body", "orelse"):
                blk = getattr(blk_owner, fld, None)
                if not (isinstance(blk, list) and blk and isinstance(blk[0], ast.stmt)):
                    continue
                adv = [i for i, st in enumerate(blk) if isinstance(st, ast.Expr) and isinstance(st.value, ast.Call)
                       and (pyflow.call_name(st.value) or "") == "self.next"]
                if not adv:
                    continue
                for st in blk[adv[0] + 1:]:
                    for c in ast.walk(st):
                        if isinstance(c, ast.Call) and isinstance(c.func, ast.Name) and c.func.id[:1].isupper():
                            nadv += 1
                            late = [dm.seg(a) for a in c.args if (pyflow.dotted(a) or "") in ("self.token.value", "self.token.typ")]
                            run.check(R5, "declast.%s:%s(token-after-advance)" % (q, c.func.id), not late,
                                      "%s(...) is built from %s after self.next(): that is the *following* token (`-3` is "
                                      "read as UnaryOp('3', 3))" % (c.func.id, late), dm.loc(c))
    run.floor(R5, "node constructions after an advance", nadv, 1)
    # print of binary / paren expressions keeps structure
    bo = tm.func("PrintNode.visit_BinaryOp")
    rets = [r for r in ast.walk(bo) if isinstance(r, ast.Return)]
    rnames = set(a.targets[0].id for a in ast.walk(bo) if isinstance(a, ast.Assign) and isinstance(a.targets[0], ast.Name)
                 and "self.visit(node.right)" in tm.seg(a.value))
    ok = len(rets) == 1 and (pat.match(pat.parse("self.visit(node.left) + node.op + self.visit(node.right)")[1], rets[0].value, {})
                             or any(pat.match(pat.parse("self.visit(node.left) + node.op + %s" % r_)[1], rets[0].value, {}) for r_ in rnames))
    run.check(R5, "todict.PrintNode.visit_BinaryOp", ok,
              "visit_BinaryOp no longer prints its operands in source order with the operator between them", tm.loc(bo))
    # the text that follows an operator never begins with a sign: `a - -b`, `a - -b * 2` and `- -5` must not become `a--b`,
    # `a--b*2`, `--5` (a decrement in C, two consecutive operators in Fortran).  Whether the operand text begins with a
    # sign depends on its leftmost leaf, not on the class of the operand node, so the test looks at the text
    def sign_wrapped(fn, operand_expr):
        """name bound to the operand text, wrapped in parentheses under a test of its first character for + and -"""
        names = [a.targets[0].id for a in ast.walk(fn) if isinstance(a, ast.Assign) and isinstance(a.targets[0], ast.Name)
                 and operand_expr in tm.seg(a.value)]
        for nm in names:
            for a in ast.walk(fn):
                if isinstance(a, ast.Assign) and pat.match(pat.parse("%s = '(' + %s + ')'" % (nm, nm))[1], a, {}):
                    for t, pol in pyflow.dominating_tests(a, stop=fn):
                        txt = str(tm.seg(t))
                        first = ("%s[:1]" % nm in txt) or ("%s[0]" % nm in txt) or ("%s.startswith" % nm in txt)
                        if pol and first and "'+'" in txt.replace('"', "'") and "'-'" in txt.replace('"', "'") or \
                                pol and first and ("'+-'" in txt or "'-+'" in txt):
                            return nm
        return None
    rn = sign_wrapped(bo, "self.visit(node.right)")
    run.check(R5, "todict.PrintNode.visit_BinaryOp:unary-right", rn is not None and rn in rnames,
              "the right operand of a binary operator must be parenthesised whenever its *text* begins with + or -: a test of the "
              "operand's node class misses `a - -b * 2` (right operand is a product whose first factor is negated), printed "
              "`a--b*2`", tm.loc(bo))
    uo = tm.func("PrintNode.visit_UnaryOp")
    un = sign_wrapped(uo, "self.visit(node.node)")
    urets = [r for r in ast.walk(uo) if isinstance(r, ast.Return)]
    oku = len(urets) == 1 and un is not None and pat.match(pat.parse("node.op + %s" % un)[1], urets[0].value, {})
    run.check(R5, "todict.PrintNode.visit_UnaryOp", bool(oku),
              "visit_UnaryOp must print the operator followed by the operand, the operand in parentheses when its text begins "
              "with a sign (`- -5` printed as `--5` is a decrement in C and invalid Fortran)", tm.loc(uo))
    fnp = tm.func("PrintNode.visit_ParenExpr")
    run.check(R5, "todict.PrintNode.visit_ParenExpr", "'('+self.visit(node.node)+')'" in _norm(tm.seg(fnp)),
              "visit_ParenExpr no longer prints its operand between parentheses", tm.loc(fnp))
    pp = dm.func("ExprParser.primary")
    run.check(R5, "declast.ExprParser.primary:ParenExpr", "ParenExpr(self.expression())" in dm.seg(pp),
              "parentheses must be kept as ParenExpr nodes (the printer relies on them)", dm.loc(pp))

    # ---- R6 emitters
    for mname, q, member, value in (("wrapc", "Wrapc.wrap_enum", "C_enum_member", "C_value"),
                                    ("wrapf", "Wrapf.wrap_enum", "F_enum_member", "F_value")):
        m = repo.module(mname)
        fn = m.func(q)
        strs = [n.value for n in ast.walk(fn) if isinstance(n, ast.Constant) and isinstance(n.value, str)]
        ok = any("{%s}" % member in s and "{%s}" % value in s for s in strs)
        run.check(R6, "%s.%s" % (mname, q), ok,
                  "emitter must format {%s} = {%s}" % (member, value), m.loc(fn),
                  sample=dict(templates=[s for s in strs if "{" in s][:4]))
        other = "F_" if member.startswith("C_") else "C_"
        bad = [s for s in strs if "{%senum_member}" % other in s or "{%svalue}" % other in s]
        run.check(R6, "%s.%s:no-cross" % (mname, q), not bad, "emitter uses the other language's keys: %s" % bad, m.loc(fn))
        run.check(R6, "%s.%s:member-table" % (mname, q), "_fmtmembers" in m.seg(fn) and "fmtmembers[member.name]" in m.seg(fn),
                  "emitter must read the per-member scopes the node created", m.loc(fn))
    # emitters print the values computed by EnumNode; they never re-evaluate or overwrite them
    for mname, q in (("wrapc", "Wrapc.wrap_enum"), ("wrapf", "Wrapf.wrap_enum"), ("wrapp", "Wrapp.wrap_enum")):
        m = repo.module(mname)
        fn = m.func(q)
        writes = [m.seg(a) for a in ast.walk(fn) if isinstance(a, (ast.Assign, ast.AugAssign)) for t in
                  (a.targets if isinstance(a, ast.Assign) else [a.target])
                  if isinstance(t, ast.Attribute) and t.attr in ("C_value", "F_value", "evalue")]
        evals = [m.seg(c) for c in ast.walk(fn) if isinstance(c, ast.Call) and (pyflow.call_name(c) or "") in ("eval", "exec", "int", "float")]
        run.check(R6, "%s.%s:values-as-computed" % (mname, q), not writes and not evals,
                  "the emitter changes or re-evaluates enumerator values (%s): Python arithmetic differs from C++ "
                  "(floor vs truncating division), and the C and Fortran values no longer come from one computation"
                  % (writes + evals)[:2], m.loc(fn))
    # Fortran always writes a value: template has "= {F_value}" unconditionally
    wf = repo.module("wrapf").func("Wrapf.wrap_enum")
    fv_sites = [n for n in ast.walk(wf) if isinstance(n, ast.Constant) and isinstance(n.value, str) and "{F_value}" in n.value]
    run.check(R6, "wrapf.Wrapf.wrap_enum:unconditional", len(fv_sites) == 1 and
              not [t for t, p in pyflow.dominating_tests(fv_sites[0], stop=wf) if "value" in repo.module("wrapf").seg(t)],
              "every Fortran parameter must carry its value", repo.module("wrapf").loc(wf))
    # C writes "= value" exactly for explicit members
    wc = repo.module("wrapc").func("Wrapc.wrap_enum")
    cv_sites = [n for n in ast.walk(wc) if isinstance(n, ast.Constant) and isinstance(n.value, str) and "{C_value}" in n.value]
    ok = len(cv_sites) == 1 and any("member.value is not None" in repo.module("wrapc").seg(t) and p
                                    for t, p in pyflow.dominating_tests(cv_sites[0], stop=wc))
    run.check(R6, "wrapc.Wrapc.wrap_enum:explicit-only", ok,
              "the C header must write `= value` exactly for members with an explicit value", repo.module("wrapc").loc(wc))
    # scoped enums: both scopes extended under the same test
    sc = [n for n in ast.walk(f) if isinstance(n, ast.If) and "ast.scope is not None" in am.seg(n.test)]
    names_set = set()
    for n in sc:
        for a in ast.walk(n):
            if isinstance(a, ast.Assign):
                names_set.add(_norm(am.seg(a.targets[0])))
    run.check(R6, "ast.EnumNode.__init__:scoped", {"C_name_scope", "F_name_scope", "fmt.C_name_scope", "fmt.F_name_scope"} <= names_set,
              "scoped enumerations must add the enum name to both the C and the Fortran name scope", am.loc(f),
              sample=dict(assigned=sorted(names_set)))


def _parents(n):
    from sa.loader import parent_chain
    return list(parent_chain(n))
