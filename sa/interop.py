"""C <-> Fortran interoperability model (ISO_C_BINDING, LP64)."""
import re

# C scalar type -> Fortran kind constant
C_TO_KIND = {
    "short": "C_SHORT", "int": "C_INT", "long": "C_LONG", "long long": "C_LONG_LONG",
    "unsigned short": "C_SHORT", "unsigned int": "C_INT", "unsigned long": "C_LONG",
    "unsigned long long": "C_LONG_LONG", "unsigned": "C_INT",
    "size_t": "C_SIZE_T", "int8_t": "C_INT8_T", "int16_t": "C_INT16_T",
    "int32_t": "C_INT32_T", "int64_t": "C_INT64_T",
    "uint8_t": "C_INT8_T", "uint16_t": "C_INT16_T", "uint32_t": "C_INT32_T",
    "uint64_t": "C_INT64_T",
    "float": "C_FLOAT", "double": "C_DOUBLE", "long double": "C_LONG_DOUBLE",
    "float complex": "C_FLOAT_COMPLEX", "double complex": "C_DOUBLE_COMPLEX",
    "bool": "C_BOOL", "_Bool": "C_BOOL", "char": "C_CHAR", "signed char": "C_SIGNED_CHAR",
    "MPI_Fint": "C_INT",
}

# Fortran kind -> intrinsic type
KIND_TO_FTYPE = {
    "C_SHORT": "integer", "C_INT": "integer", "C_LONG": "integer", "C_LONG_LONG": "integer",
    "C_SIZE_T": "integer", "C_INT8_T": "integer", "C_INT16_T": "integer",
    "C_INT32_T": "integer", "C_INT64_T": "integer", "C_SIGNED_CHAR": "integer",
    "C_FLOAT": "real", "C_DOUBLE": "real", "C_LONG_DOUBLE": "real",
    "C_FLOAT_COMPLEX": "complex", "C_DOUBLE_COMPLEX": "complex",
    "C_BOOL": "logical", "C_CHAR": "character",
}

# LP64 sizes in bytes
C_SIZE = {
    "char": 1, "signed char": 1, "unsigned char": 1, "bool": 1, "_Bool": 1,
    "short": 2, "unsigned short": 2, "int": 4, "unsigned int": 4, "unsigned": 4,
    "long": 8, "unsigned long": 8, "long long": 8, "unsigned long long": 8,
    "size_t": 8, "ssize_t": 8, "Py_ssize_t": 8,
    "int8_t": 1, "uint8_t": 1, "int16_t": 2, "uint16_t": 2, "int32_t": 4, "uint32_t": 4,
    "int64_t": 8, "uint64_t": 8, "float": 4, "double": 8, "long double": 16,
    "Py_complex": 16, "float complex": 8, "double complex": 16,
    "char *": 8, "PyObject *": 8,
}

KIND_RE = re.compile(r"\bC_[A-Z0-9_]+\b")


class CParam(object):
    def __init__(self, text):
        self.text = text
        s = text.strip()
        # array suffix
        m = re.search(r"\[([^\]]*)\]\s*$", s)
        self.array = None
        if m:
            self.array = m.group(1).strip()
            s = s[:m.start()].strip()
        self.depth = s.count("*")
        self.ref = "&" in s
        toks = re.findall(r"\{[^}]*\}|[A-Za-z_][A-Za-z_0-9:]*|\*|&", s)
        words = [t for t in toks if t not in ("*", "&")]
        # name: maximal trailing run of tokens adjacent in the text (e.g.
        # {cfi_prefix}{c_var}); find last whitespace/star boundary
        m2 = re.search(r"((?:\{[^}]*\}|[A-Za-z_0-9])+)\s*$", s)
        self.name = m2.group(1) if m2 else ""
        head = s[:m2.start()] if m2 else s
        hw = re.findall(r"\{[^}]*\}|[A-Za-z_][A-Za-z_0-9:]*", head)
        self.const = "const" in hw or "{c_const}" in hw
        self.base = " ".join(w for w in hw if w not in ("const", "volatile", "{c_const}", "struct"))

    def __repr__(self):
        return "CParam(%r depth=%d name=%r)" % (self.base, self.depth, self.name)


class FDecl(object):
    """`type-spec[, attr]... :: name[(dims)]`"""

    def __init__(self, text):
        self.text = text
        s = text.split("!")[0].strip() if "!" in text and "::" in text.split("!")[0] else text.strip()
        if "::" not in s:
            self.ok = False
            self.type = s
            self.attrs = []
            self.name = ""
            self.dims = None
            self.init = None
            return
        self.ok = True
        left, right = s.split("::", 1)
        parts = _split_top(left)
        self.type = parts[0].strip()
        self.attrs = [p.strip().lower() for p in parts[1:]]
        right = right.strip()
        self.init = None
        if "=" in right:
            right, self.init = [x.strip() for x in right.split("=", 1)]
        m = re.match(r"((?:\{[^}]*\}|[A-Za-z_0-9%])+?)\s*(\(.*\)|\{f_c_dimension\}|\{f_assumed_shape\})?\s*$", right)
        if m:
            self.name = m.group(1)
            self.dims = m.group(2)
        else:
            self.name = right
            self.dims = None
        t = self.type.replace(" ", "").lower()
        self.tclass = t.split("(")[0]
        self.kinds = KIND_RE.findall(self.type)

    @property
    def value(self):
        return "value" in self.attrs

    @property
    def intent(self):
        for a in self.attrs:
            m = re.match(r"intent\((.*)\)", a)
            if m:
                return m.group(1)
        return None

    def __repr__(self):
        return "FDecl(%r attrs=%r name=%r dims=%r)" % (self.type, self.attrs, self.name, self.dims)


def _split_top(s):
    out, cur, depth = [], [], 0
    for c in s:
        if c in "({":
            depth += 1
        elif c in ")}":
            depth -= 1
        if c == "," and depth == 0:
            out.append("".join(cur))
            cur = []
        else:
            cur.append(c)
    out.append("".join(cur))
    return out


def interop_problems(c, f):
    """Problems pairing C parameter `c` (CParam) with Fortran dummy `f`
    (FDecl) in a bind(C) interface.  Empty list = interoperable."""
    probs = []
    if not f.ok:
        return ["Fortran declaration %r has no '::'" % f.text]
    ftype = f.type.replace(" ", "")
    ftl = ftype.lower()
    is_cptr = ftl == "type(c_ptr)"
    if c.base == "CFI_cdesc_t":
        if c.depth != 1:
            probs.append("CFI_cdesc_t must be passed by pointer")
        if f.value:
            probs.append("descriptor argument must not have VALUE")
        descr = (ftl.startswith("character(len=*)") or ftl.startswith("character(len=:)")
                 or "allocatable" in f.attrs or "pointer" in f.attrs
                 or (f.dims and ("f_c_dimension" in f.dims or ":" in f.dims or ".." in f.dims)))
        if not descr:
            probs.append("C takes a CFI descriptor but the Fortran dummy %r is not "
                         "assumed-shape/assumed-length/allocatable" % f.text)
        return probs
    if c.depth == 0 and c.array is None:
        if not f.value:
            probs.append("C parameter %r is passed by value but Fortran dummy lacks VALUE" % c.text)
        if f.dims and "(" in f.dims:
            probs.append("scalar C parameter but array dummy")
        probs.extend(_scalar_match(c.base, f))
        return probs
    # pointer / array in C
    if f.value:
        if not is_cptr:
            probs.append("C parameter %r is a pointer; a VALUE dummy must be type(C_PTR), got %s"
                         % (c.text, f.type))
        return probs
    if is_cptr:
        depth = c.depth + (1 if c.array is not None else 0)
        if depth < 2 and c.base != "void":
            probs.append("type(C_PTR) by reference is `void **` but C declares %r" % c.text)
        return probs
    if ftl.startswith("type(") or ftl.startswith("class("):
        # derived type by reference <-> struct pointer : names compared by caller
        if c.depth != 1:
            probs.append("derived type by reference needs a single-level struct pointer, C has %r" % c.text)
        return probs
    if c.depth + (1 if c.array is not None else 0) != 1:
        if not (c.base == "char" and c.depth == 1):
            probs.append("by-reference %s dummy needs a single-level pointer, C has %r" % (f.type, c.text))
    probs.extend(_scalar_match(c.base, f))
    return probs


def _scalar_match(cbase, f):
    probs = []
    if cbase.startswith("{"):
        # placeholder type ({cxx_type}, {c_type}): the Fortran side must use the
        # corresponding placeholder ({f_type}) - checked by the caller
        return probs
    kind = C_TO_KIND.get(cbase)
    if kind is None:
        return probs
    ftl = f.type.replace(" ", "")
    if ftl.startswith("{"):
        return probs
    want_class = KIND_TO_FTYPE[kind]
    if f.tclass != want_class:
        probs.append("C type %s needs Fortran %s(%s), got %s" % (cbase, want_class, kind, f.type))
    elif kind not in f.kinds:
        probs.append("C type %s needs kind %s, got %s" % (cbase, kind, f.type))
    return probs
