"""C10 - character data crosses the language boundary by the documented rules."""
import ast
import re

from sa import pattern, tables, templ, pyflow, cbounds
from sa.cbounds import Lin
from sa.loader import AnalysisError

EXPLANATION = (
    "(R1) bounds proofs of the embedded C helper bodies: the C and C++ sources of ShroudStrCopy, "
    "ShroudStrBlankFill, ShroudStrAlloc, ShroudLenTrim, ShroudStrArrayAlloc, ShroudStrArrayFree, "
    "copy_string and copy_array are extracted from whelpers.py, parsed by clang (parse only, JSON AST) "
    "and every memcpy/memset/strncpy/subscript access is proved inside its buffer by linear reasoning "
    "(Fourier-Motzkin) from the documented parameter contracts, ?:-minimum facts, guards, loop bounds "
    "and proved callee post-conditions; no NUL is stored into a Fortran destination; (R2) dimension "
    "typing of every helper call in the c_* statement entries (Len / Trim / Size / StrLen in the right "
    "slots, lengths provided by buf_args); (R3) length producers in the Fortran wrapper use the "
    "intrinsic of the same name and the variable-name templates are not crossed; (R4) the C and C++ "
    "variants of each helper are token-equal modulo std:: and casts; (R5) const char* input is "
    "trimmed and NUL-terminated on the Fortran side with both consumers in place; (R6) allocatable "
    "results are allocated with the C string's length and copied with that same length.")
NOT_DECIDED = "The Fortran run-time semantics of trim/len/len_trim themselves and the behaviour of compiled code."

PLACEHOLDERS = {
    "C_prefix": "LIB_", "C_array_type": "LIB_SHROUD_array", "C_capsule_data_type": "LIB_SHROUD_capsule_data",
    "C_memory_dtor_function": "LIB_SHROUD_memory_destructor", "lstart": "", "lend": "", "hname": "helper",
    "hnamefunc": "helperfunc", "nullptr": "NULL",
}

PRELUDE_C = """
#include <string.h>
#include <stdlib.h>
#include <stddef.h>
struct s_LIB_SHROUD_capsule_data { void *addr; int idtor; };
typedef struct s_LIB_SHROUD_capsule_data LIB_SHROUD_capsule_data;
struct s_LIB_SHROUD_array {
    LIB_SHROUD_capsule_data cxx;
    union { const void * base; const char * ccharp; } addr;
    int type; size_t elem_len; size_t size; int rank; long shape[7];
};
typedef struct s_LIB_SHROUD_array LIB_SHROUD_array;
void LIB_SHROUD_memory_destructor(LIB_SHROUD_capsule_data *cap);
"""
PRELUDE_CXX = PRELUDE_C.replace("<string.h>", "<cstring>").replace("<stdlib.h>", "<cstdlib>") \
    .replace("<stddef.h>", "<cstddef>") + "#include <string>\n"

# helper key -> list of C function names it defines
HELPERS = {
    "ShroudLenTrim": ["ShroudLenTrim"], "ShroudStrCopy": ["ShroudStrCopy"],
    "ShroudStrBlankFill": ["ShroudStrBlankFill"], "ShroudStrAlloc": ["ShroudStrAlloc"],
    "ShroudStrFree": ["ShroudStrFree"], "ShroudStrArrayAlloc": ["ShroudStrArrayAlloc"],
    "ShroudStrArrayFree": ["ShroudStrArrayFree"], "copy_string": ["LIB_ShroudCopyStringAndFree"],
    "copy_array": ["LIB_ShroudCopyArray"], "ShroudStrToArray": ["ShroudStrToArray"],
}

# The documented contract of each helper (what its callers guarantee).
CONTRACTS = {
    "ShroudLenTrim": dict(assume=["nsrc >= 0"], cap={"src": "nsrc"}, post=["ret >= 0", "ret <= nsrc"]),
    "ShroudStrCopy": dict(assume=["ndest >= 0", "cap_src >= 0"], cap={"dest": "ndest", "src": "cap_src"},
                          cond=[("nsrc >= 0", "nsrc <= cap_src")], nul={"src": True}),
    "ShroudStrBlankFill": dict(assume=["ndest >= 0"], cap={"dest": "ndest"}, nul={}),
    # the C string handed to the library can be written up to the declared Fortran length (intent inout)
    "ShroudStrAlloc": dict(assume=["nsrc >= 0", "ntrim >= -1", "ntrim <= nsrc"], cap={"src": "nsrc"}, retcap="nsrc + 1"),
    "ShroudStrFree": dict(),
    "ShroudStrArrayAlloc": dict(assume=["nsrc >= 0", "len >= 0"], nonneg=["len"], cap={"src": ("nsrc", "len")}),
    "ShroudStrArrayFree": dict(assume=["nsrc >= 0"], cap={"src": "nsrc"}),
    "LIB_ShroudCopyStringAndFree": dict(assume=["c_var_len >= 0"], cap={"c_var": "c_var_len",
                                                                     "data->addr.ccharp": "data->elem_len"},
                                        nonneg=["data->elem_len"]),
    "LIB_ShroudCopyArray": dict(assume=["c_var_size >= 0"], nonneg=["data->elem_len", "data->size"],
                                cap={"c_var": ("c_var_size", "data->elem_len"),
                                     "data->addr.base": ("data->size", "data->elem_len")}),
    "ShroudStrToArray": dict(),
}
MIN_ACCESS_SITES = 12


def _lentrim_value(interp, vals, st):
    sym = interp.fresh("lentrim")
    r = Lin.var(sym)
    st.le(0, r)
    if len(vals) > 1 and isinstance(vals[1], Lin):
        st.le(r, vals[1])
    return r


def _lentrim_pre(interp, n, args, vals, st):
    """Caller obligation of ShroudLenTrim(s, n): s readable for n characters, n >= 0."""
    site = interp.site(n)
    if len(vals) < 2 or vals[1] is None:
        interp.oblige(site, "call ShroudLenTrim", "length not modelled", False, "unmodelled")
        return
    length = vals[1]
    ok = isinstance(length, Lin) and st.prove_le(0, length)
    interp.oblige(site, "call ShroudLenTrim", "0 <= n  [%r]" % (length,), ok,
                  "" if ok else "cannot prove the length passed to ShroudLenTrim is non-negative")
    interp.access(site, "call ShroudLenTrim:src", args[0], length, st, False)


CALLEE_POST = {"ShroudLenTrim": dict(value=_lentrim_value, pre=_lentrim_pre)}


def _subst(text):
    def rep(m):
        k = m.group(1)
        if k == "stdlib":
            return "@STDLIB@"
        return PLACEHOLDERS.get(k, "PH_" + k)
    return re.sub(r"\{([A-Za-z_]\w*)\}", rep, text)


def build_tu(helpers, lang):
    parts = [PRELUDE_C if lang == "c" else PRELUDE_CXX]
    order = ["ShroudLenTrim", "ShroudStrCopy", "ShroudStrBlankFill", "ShroudStrAlloc", "ShroudStrFree",
             "ShroudStrArrayAlloc", "ShroudStrArrayFree", "copy_string", "copy_array"]
    if lang == "c++":
        order.append("ShroudStrToArray")
    present = []
    for key in order:
        h = helpers.c.get(key)
        if h is None:
            raise AnalysisError("C10.R1: helper %s vanished from whelpers.CHelpers" % key)
        srcs = dict(tables.helper_sources(h, lang))
        text = srcs.get("c_source" if lang == "c" else "cxx_source", srcs.get("source"))
        if text is None:
            continue
        templated = any(k in h.get("_templated", ()) for k in ("source", "c_source", "cxx_source"))
        if templated:
            text = _subst(text)
        text = text.replace("@STDLIB@", "" if lang == "c" else "std::")
        parts.append("/* helper %s */\n%s\n" % (key, text))
        present.append(key)
    return "\n".join(parts), present


def rule_r1(repo, run, helpers):
    R = run.rule("C10.R1", "every buffer access of the embedded C helpers is proved in bounds from the "
                           "documented contracts")
    total_sites = 0
    nscans = [0, 0]
    for lang in ("c", "c++"):
        tu, present = build_tu(helpers, lang)
        docs = cbounds.clang_ast(tu, lang, "Shroud")
        funcs = cbounds.find_functions(docs)
        for key in present:
            for fname in HELPERS[key]:
                fd = funcs.get(fname)
                if fd is None:
                    raise AnalysisError("C10.R1: function %s of helper %s not found in the %s source"
                                        % (fname, key, lang))
                # trailing-blank scans must look at every position, index 0 included: a descending scan ends
                # (all blanks) with i == -1 so that the trimmed length i + 1 is 0
                for sc in cbounds.blank_scans(fd):
                    nscans[0] += 1
                    if sc["bound"] is None:
                        run.unmodelled_site(R, "%s[%s]" % (fname, lang), "blank scan with a non-literal bound")
                        continue
                    lim = sc["bound"] if sc["op"] == ">" else sc["bound"] - 1 if sc["op"] == ">=" else None
                    run.check(R, "whelpers.CHelpers[%s].%s[%s]:blank-scan" % (key, fname, lang), lim == -1,
                              "the trailing-blank scan `%s %s %s` stops before index 0: an all-blank value keeps "
                              "one blank (trimmed length 1 instead of 0)" % (sc["ivar"], sc["op"], sc["bound"]),
                              "shroud/whelpers.py helper %s (%s source)" % (key, lang),
                              sample=dict(helper=key, scan="%s %s %s" % (sc["ivar"], sc["op"], sc["bound"])))
                for p_, q_ in cbounds.base_pointer_in_element_loop(fd):
                    run.fail(R, "whelpers.CHelpers[%s].%s[%s]:element-pointer" % (key, fname, lang),
                             "inside the loop that advances `%s` element by element, the array base `%s` is used: every "
                             "element is measured/copied from the first element" % (p_, q_),
                             "shroud/whelpers.py helper %s (%s source)" % (key, lang))
                if fname == "ShroudStrArrayAlloc":
                    nscans[1] += 1
                    run.ok(R, "whelpers.CHelpers[%s].%s[%s]:element-pointer" % (key, fname, lang))
                it = cbounds.Interp(fname, fd, CONTRACTS.get(fname, {}), CALLEE_POST).run()
                sites = set(o.site + "/" + o.kind for o in it.obligations)
                total_sites += len(sites)
                for u in it.unmodelled:
                    run.unmodelled_site(R, "%s[%s]" % (fname, lang), u)
                if not it.obligations:
                    run.ok(R, "whelpers.CHelpers[%s].%s[%s]:no-buffer-access" % (key, fname, lang))
                # aggregate per site/kind
                by = {}
                for o in it.obligations:
                    by.setdefault((o.site.split(":")[0], o.kind, o.text.split("[")[0].strip()), []).append(o)
                for (fn, kind, text), obs in sorted(by.items()):
                    ok = all(o.ok for o in obs)
                    why = "; ".join(sorted(set(o.why for o in obs if not o.ok)))
                    run.check(R, "whelpers.CHelpers[%s].%s[%s]:%s:%s" % (key, fname, lang, kind, text), ok,
                              "%s (%s)" % (why, [o.text for o in obs if not o.ok][:2]),
                              "shroud/whelpers.py helper %s (%s source)" % (key, lang),
                              sample=dict(helper=key, function=fname, lang=lang, kind=kind,
                                          obligation=[o.text for o in obs][:2], paths=len(obs)))
    run.floor(R, "buffer access sites in helpers (both languages)", total_sites, MIN_ACCESS_SITES)
    if nscans[0] < 2:
        raise AnalysisError("C10.R1: trailing-blank scan of ShroudLenTrim not found (%d)" % nscans[0])
    # no NUL is written into a Fortran destination
    for key in ("ShroudStrCopy", "ShroudStrBlankFill"):
        h = helpers.c[key]
        for k, text in tables.helper_sources(h):
            code = templ.strip_c_comments(text)
            bad = re.search(r"dest\s*\[[^\]]*\]\s*=\s*('\\0'|0)\b|memset\s*\(\s*dest[^,]*,\s*(0|'\\0')\s*,", code)
            run.check(R, "whelpers.CHelpers[%s].%s:no-NUL-in-dest" % (key, k), bad is None,
                      "a NUL is stored into the Fortran destination buffer", "shroud/whelpers.py",
                      sample=dict(helper=key, variant=k))
            fill = re.findall(r"memset\s*\(\s*dest[^,]*,\s*('[^']*'|\w+)\s*,", code)
            run.check(R, "whelpers.CHelpers[%s].%s:blank-fill" % (key, k), fill and all(f == "' '" for f in fill),
                      "padding must use blanks, found %s" % fill, "shroud/whelpers.py")
    # ShroudStrAlloc / ShroudStrArrayAlloc terminate with NUL
    for key in ("ShroudStrAlloc", "ShroudStrArrayAlloc"):
        for k, text in tables.helper_sources(helpers.c[key]):
            code = templ.strip_c_comments(text)
            run.check(R, "whelpers.CHelpers[%s].%s:NUL-terminated" % (key, k),
                      re.search(r"\[\s*ntrim\s*\]\s*=\s*'\\0'", code) is not None,
                      "the copy handed to C must be NUL terminated at its trimmed length", "shroud/whelpers.py")


# ---------------------------------------------------------------------------
# R2 dimension typing
# ---------------------------------------------------------------------------
def _norm(s):
    return re.sub(r"\s+", "", s)


def classify(arg, aliases):
    """Dimension type of an argument expression in a statement template."""
    a = _norm(arg)
    a = re.sub(r"^\{cast_\w+\}[^{}]*\{cast1\}(.*)\{cast2\}$", r"\1", a)
    if a in ("-1",):
        return ("Sentinel", None)
    if a == "0":
        return ("Zero", None)
    if a in ("{nullptr}", "NULL"):
        return ("Null", None)
    m = re.match(r"^\{c_var_len\}$", a)
    if m:
        return ("Len", "c_var")
    if a == "{cfi_prefix}{c_var}->elem_len":
        return ("Len", "c_var")
    if a == "{c_var_trim}":
        return ("Trim", "c_var")
    if a == "{c_var_size}":
        return ("Size", "c_var")
    m = re.match(r"^ShroudLenTrim\((.+),(.+)\)$", a)
    if m:
        b = classify(m.group(1), aliases)
        l = classify(m.group(2), aliases)
        if b[0] == "Buf" and l == ("Len", b[1]):
            return ("Trim", b[1])
        return ("BadTrim", (b, l))
    m = re.match(r"^(?:\{stdlib\})?strlen\((.+)\)$", a)
    if m:
        return ("StrLen", _norm(m.group(1)))
    m = re.match(r"^(.+?)(\{cxx_member\}|\.|->)(size|length)\(\)$", a)
    if m:
        return ("StrLen", m.group(1))
    m = re.match(r"^(.+?)(\{cxx_member\}|\.|->)(data|c_str)\(\)$", a)
    if m:
        return ("Data", m.group(1))
    if a == "{cfi_prefix}{c_var}->base_addr":
        return ("Buf", "c_var")
    if a in aliases:
        return aliases[a]
    if a == "{c_var}":
        return ("Buf", "c_var")
    if a == "{cxx_var}":
        return ("CString", "{cxx_var}")
    return ("Other", a)


SIGS = {
    "ShroudStrBlankFill": 2, "ShroudStrCopy": 4, "ShroudStrAlloc": 3, "ShroudLenTrim": 2,
    "ShroudStrArrayAlloc": 3, "ShroudStrArrayFree": 2, "ShroudStrFree": 1,
}


def entry_aliases(e):
    """Local declarations of an entry that alias the Fortran buffer:
       char *{cxx_var} = <cast>{cfi_prefix}{c_var}->base_addr ;  char * BBB = {c_var};"""
    al = {}
    for clause in ("pre_call", "post_call"):
        for s in e.lines(clause):
            for line in templ.code_lines(s):
                m = re.match(r"^\s*(?:\{c_const\}|const\s+)?char\s*\*\s*([\w{}]+)\s*=\s*(.+?);\s*$", line)
                if m:
                    name = _norm(m.group(1))
                    rhs = m.group(2)
                    t = classify(rhs, al)
                    if t[0] == "Buf":
                        al[name] = ("Buf", t[1])
                    elif "ShroudStrAlloc" in rhs:
                        al[name] = ("CString", name)
    return al


def rule_r2(repo, run, table):
    R = run.rule("C10.R2", "helper calls in c_* entries pass buffer, Len, Trim, Size, StrLen in the right slots "
                           "and buf_args provide the lengths used")
    ncalls = 0
    done = set()
    for lang in ("c", "c++"):
        for name, e in table.resolve_all(lang).items():
            if not name.startswith("c_"):
                continue
            code_lines = []
            for clause in ("pre_call", "call", "post_call", "final", "ret"):
                for s in e.lines(clause):
                    code_lines.extend(templ.code_lines(s))
            code = "\n".join(code_lines)
            key = (name, code)
            if key in done:
                continue
            done.add(key)
            al = entry_aliases(e)
            buf = list(e.get("buf_args") or [])
            loc = table.loc(e.raw)
            is_cfi = any("CFI_cdesc_t" in x for x in e.lines("c_arg_decl"))
            calls = templ.calls(code)
            for fn, args, pos in calls:
                base = fn.replace("{stdlib}", "").replace("std::", "")
                construct = "statements.fc_statements[%s]:%s(%s)" % (name, base, ",".join(_norm(a) for a in args))
                if base in SIGS:
                    ncalls += 1
                    probs = []
                    if len(args) != SIGS[base]:
                        probs.append("%s takes %d arguments, %d given" % (base, SIGS[base], len(args)))
                        run.check(R, construct, False, "; ".join(probs), loc)
                        continue
                    t = [classify(a, al) for a in args]
                    if base == "ShroudStrBlankFill":
                        if t[0][0] != "Buf":
                            probs.append("destination %r is not the Fortran buffer" % args[0])
                        elif t[1] != ("Len", t[0][1]):
                            probs.append("ndest must be the declared length of %s, got %s" % (t[0][1], t[1]))
                    elif base == "ShroudStrCopy":
                        if t[0][0] != "Buf":
                            probs.append("destination %r is not the Fortran buffer" % args[0])
                        elif t[1] != ("Len", t[0][1]):
                            probs.append("ndest must be the declared length (len) of the destination, got %s %r"
                                         % (t[1][0], args[1]))
                        if t[2][0] == "Data":
                            if t[3] != ("StrLen", t[2][1]):
                                probs.append("source is %s.data() but nsrc is %r, expected %s.size()"
                                             % (t[2][1], args[3], t[2][1]))
                        elif t[2][0] == "Null":
                            if t[3][0] not in ("Zero", "Sentinel"):
                                probs.append("NULL source needs nsrc 0")
                        elif t[2][0] in ("CString", "Other"):
                            if t[3][0] != "Sentinel":
                                probs.append("C string source needs nsrc=-1 (strlen), got %r" % args[3])
                        else:
                            probs.append("unexpected source %r" % args[2])
                    elif base == "ShroudStrAlloc":
                        if t[0][0] != "Buf":
                            probs.append("source %r is not the Fortran buffer" % args[0])
                        else:
                            x = t[0][1]
                            if t[1] not in (("Len", x), ("Trim", x)):
                                probs.append("nsrc must be len or len_trim of the argument, got %r" % args[1])
                            if t[2] != ("Trim", x) and t[2][0] != "Sentinel":
                                probs.append("ntrim must be len_trim of the argument or -1, got %r" % args[2])
                            if t[1] == ("Trim", x) and t[2][0] == "Sentinel":
                                pass     # trims again inside: still <= nsrc
                            parts = name.split("_")
                            if ("inout" in parts or "out" in parts) and t[1] != ("Len", x):
                                probs.append("the callee may write up to the declared length of an intent(%s) argument: "
                                             "the temporary must be allocated with len (nsrc), got %r - the library "
                                             "writes past the end of a buffer of len_trim+1 bytes"
                                             % ("inout" if "inout" in parts else "out", args[1]))
                    elif base == "ShroudLenTrim":
                        if t[0][0] != "Buf" or t[1] != ("Len", t[0][1]):
                            probs.append("ShroudLenTrim(buffer, len(buffer)) expected, got %r" % (args,))
                    elif base == "ShroudStrArrayAlloc":
                        if t[0][0] != "Buf" or t[1] != ("Size", t[0][1]) or t[2] != ("Len", t[0][1]):
                            probs.append("ShroudStrArrayAlloc(buffer, size(buffer), len(buffer)) expected, got %r" % (args,))
                    elif base == "ShroudStrArrayFree":
                        if t[1][0] != "Size":
                            probs.append("ShroudStrArrayFree needs the same element count as the allocation, got %r" % args[1])
                    run.check(R, construct, not probs, "; ".join(probs), loc,
                              sample=dict(entry=name, call="%s(%s)" % (base, ", ".join(args)), types=[x[0] for x in t]))
                elif base == "string" or fn.endswith("std::string"):
                    if len(args) == 2:
                        ncalls += 1
                        t = [classify(a, al) for a in args]
                        ok = t[0][0] == "Buf" and t[1] == ("Trim", t[0][1])
                        run.check(R, construct, ok,
                                  "std::string(buffer, n) must take the trimmed length of the same buffer, got %r" % (args,),
                                  loc, sample=dict(entry=name, types=[x[0] for x in t]))
                elif base == "memcpy" and len(args) == 3:
                    ncalls += 1
                    t = [classify(a, al) for a in args]
                    probs = []
                    if t[0][0] != "Buf":
                        probs.append("destination %r is not the Fortran buffer" % args[0])
                    # the descriptor was allocated with the source's length just before
                    alloc = [a for f2, a, p in calls if f2.endswith("CFI_allocate") and len(a) == 4]
                    srcname = t[1][1] if t[1][0] in ("Data", "CString") else None
                    if t[2][0] == "Len":
                        ok_alloc = any(classify(a[3], al) == ("StrLen", srcname) for a in alloc)
                        if not ok_alloc:
                            probs.append("copies elem_len bytes but the descriptor was not allocated with the "
                                         "source's length")
                    elif t[2] != ("StrLen", srcname):
                        probs.append("copy length %r is neither the destination length nor the source length" % args[2])
                    run.check(R, construct, not probs, "; ".join(probs), loc,
                              sample=dict(entry=name, types=[x[0] for x in t]))
            # declared local `std::string v(buf, n)` / `size_t trim = ShroudLenTrim(...)`
            for line in code_lines:
                m = re.match(r"^\s*(?:\{c_const\}|const\s+)?std::string\s+([\w{}]+)\((.+)\);\s*$", line)
                if m:
                    a = templ.split_args(m.group(2))
                    if len(a) == 2:
                        ncalls += 1
                        t = [classify(x, al) for x in a]
                        ok = t[0][0] == "Buf" and t[1] == ("Trim", t[0][1])
                        run.check(R, "statements.fc_statements[%s]:std::string %s(%s)" % (name, _norm(m.group(1)), _norm(m.group(2))),
                                  ok, "a string built from a Fortran buffer must use its trimmed length (len_trim), "
                                  "got %r" % (a,), loc, sample=dict(entry=name, types=[x[0] for x in t]))
                m = re.match(r"^\s*size_t\s+\{c_var_trim\}\s*=\s*(.+);\s*$", line)
                if m:
                    t = classify(m.group(1), al)
                    run.check(R, "statements.fc_statements[%s]:{c_var_trim}=" % name, t == ("Trim", "c_var"),
                              "{c_var_trim} must be computed as ShroudLenTrim(buffer, elem_len)", loc)
            # lengths used are provided
            fields = set()
            for line in code_lines:
                fields.update(re.findall(r"\{(c_var_len|c_var_trim|c_var_size|c_var_context)\}", line))
            need = {"c_var_len": "len", "c_var_trim": "len_trim", "c_var_size": "size", "c_var_context": "context"}
            for fld in sorted(fields):
                if fld == "c_var_trim" and any(re.match(r"^\s*size_t\s+\{c_var_trim\}", l) for l in code_lines):
                    continue     # computed locally from the descriptor
                run.check(R, "statements.fc_statements[%s].buf_args:%s" % (name, need[fld]), need[fld] in buf,
                          "entry uses {%s} but buf_args %s does not request %r from the Fortran wrapper"
                          % (fld, buf, need[fld]), loc, sample=dict(entry=name, field=fld, buf_args=buf))
            for b in buf:
                inv = {"len": "c_var_len", "len_trim": "c_var_trim", "size": "c_var_size"}
                if b in inv and name.split("_")[1] in ("char", "string"):
                    run.check(R, "statements.fc_statements[%s].buf_args:%s-used" % (name, b), inv[b] in fields,
                              "buf_args requests %r but no statement uses {%s}: an argument is passed and ignored"
                              % (b, inv[b]), loc)
    # a buffer is blank-filled before content is stored into it, never after
    for lang in ("c", "c++"):
        for name, e in sorted(table.resolve_all(lang).items()):
            if not name.startswith("c_"):
                continue
            lines = [l for s_ in e.lines("post_call") for l in templ.code_lines(s_)]
            fills = [i for i, l in enumerate(lines) if re.search(r"memset\(\{c_var\}, ' '|ShroudStrBlankFill\(\{c_var\}", l)]
            stores = [i for i, l in enumerate(lines) if re.search(r"\{c_var\}\[[^\]]*\]\s*=[^=]", l)]
            if fills and stores:
                run.check(R, "statements.fc_statements[%s]:fill-then-store[%s]" % (name, lang), max(fills) < min(stores),
                          "the result buffer is blank-filled after the character(s) were stored: the value is overwritten "
                          "with blanks", table.loc(e.raw), sample=dict(entry=name, post_call=lines))
    run.floor(R, "typed helper calls", ncalls, 40)


def rule_r3(repo, run):
    R = run.rule("C10.R3", "length producers: intrinsic name equals key, name templates are not crossed")
    wf = repo.module("wrapf")
    f = wf.func("Wrapf.build_arg_list_impl")
    loop = pyflow.find_loop_over(f, "buf_arg")[0]
    for key, intrinsic in (("len", "len("), ("len_trim", "len_trim("), ("size", "size(")):
        sp = pyflow.specialize(loop.body, "buf_arg", key)
        strs = [n.value for st, c, k in sp.stmts for n in ast.walk(st) if isinstance(n, ast.Constant) and isinstance(n.value, str)]
        hit = [s for s in strs if "{f_var}" in s]
        run.check(R, "wrapf.Wrapf.build_arg_list_impl[%s]" % key, len(hit) == 1 and hit[0].startswith(intrinsic),
                  "the %r argument must be computed with the Fortran intrinsic %s{f_var}...), found %s" % (key, intrinsic, hit),
                  wf.loc(loop), sample=dict(key=key, actual=hit))
    sm = repo.module("statements")
    f = sm.func("set_buf_variable_names")
    pairs = {}
    for node in ast.walk(f):
        if isinstance(node, ast.Assign) and isinstance(node.targets[0], ast.Subscript):
            k = pyflow.const_str(node.targets[0].slice)
            t = [n.attr for n in ast.walk(node.value) if isinstance(n, ast.Attribute) and n.attr.endswith("_template")]
            tests = [sm.seg(t_) for t_, p in pyflow.dominating_tests(node, stop=f)]
            if k and t:
                pairs.setdefault(k, []).append((t[0], tests))
    want = {"len": "C_var_len_template", "len_trim": "C_var_trim_template", "size": "C_var_size_template",
            "capsule": "C_var_capsule_template", "context": "C_var_context_template"}
    for k, tmpl in want.items():
        got = [t for t, tests in pairs.get(k, [])]
        run.check(R, "statements.set_buf_variable_names[%s]" % k, got and all(g == tmpl for g in got),
                  "attribute %r must be named from options.%s, found %s" % (k, tmpl, got), sm.loc(f),
                  sample=dict(key=k, template=got))
    f2 = sm.func("assign_buf_variable_names")
    src = _norm(sm.seg(f2))
    for k, fld in (("len", "c_var_len"), ("len_trim", "c_var_trim"), ("size", "c_var_size"),
                   ("context", "c_var_context"), ("capsule", "c_var_capsule")):
        run.check(R, "statements.assign_buf_variable_names[%s]" % k, pattern.has(f2, "fmt.%s = attrs['%s']" % (fld, k)),
                  "format field %s must be taken from attrs[%r]" % (fld, k), sm.loc(f2))


def _tokens(text):
    code = templ.c_code(text)
    code = code.replace("std::", "")
    code = re.sub(r"static_cast\s*<([^>]+)>\s*\(", "(", code)
    code = re.sub(r"\(\s*(?:const\s+)?[A-Za-z_]\w*\s*\*+\s*\)", "", code)      # C-style pointer casts
    code = re.sub(r"\\t", "", code)
    toks = re.findall(r"[A-Za-z_]\w*|\d+|->|<=|>=|==|!=|\+\+|--|\S", code)
    # (T)(expr) vs (T) expr : drop parentheses entirely for the comparison
    return [t for t in toks if t not in ("(", ")")]


def rule_r4(repo, run, helpers):
    R = run.rule("C10.R4", "C and C++ variants of a helper are token-equal modulo std:: and cast syntax")
    n = 0
    for key, h in sorted(helpers.c.items()):
        if isinstance(h.get("c_source"), str) and isinstance(h.get("cxx_source"), str):
            n += 1
            a = _tokens(tables.helper_text(h, "c_source").replace("\t", ""))
            b = _tokens(tables.helper_text(h, "cxx_source").replace("\t", ""))
            diff = None
            if a != b:
                for i, (x, y) in enumerate(zip(a, b)):
                    if x != y:
                        diff = "token %d: C %r vs C++ %r (…%s…)" % (i, x, y, " ".join(a[max(0, i - 4):i + 3]))
                        break
                if diff is None:
                    diff = "different length %d vs %d" % (len(a), len(b))
            run.check(R, "whelpers.CHelpers[%s]:c-vs-cxx" % key, diff is None,
                      "the C and C++ sources of the helper differ: %s" % diff,
                      repo.module("whelpers").loc(h.node), sample=dict(helper=key, tokens=len(a)))
    run.floor(R, "helpers with both variants", n, 6)


def rule_r5(repo, run):
    R = run.rule("C10.R5", "const char* input: trimmed and NUL-terminated on the Fortran side; one producer, two consumers")
    gm = repo.module("generate")
    wf = repo.module("wrapf")
    prod = []
    for m in repo.modules():
        for node in ast.walk(m.tree):
            if isinstance(node, ast.Assign) and any(isinstance(t, ast.Attribute) and t.attr == "ftrim_char_in" for t in node.targets):
                if isinstance(node.value, ast.Constant) and node.value.value is True:
                    prod.append((m, node))
    run.check(R, "ftrim_char_in:producer", len(prod) == 1 and prod[0][0].name == "generate",
              "exactly one place may decide that a char* argument is trimmed in Fortran, found %d" % len(prod),
              gm.loc(prod[0][1]) if prod else "shroud/generate.py")
    if prod:
        m, node = prod[0]
        f = [fn for fn in m.functions().values() if any(n is node for n in ast.walk(fn))][0]
        tests = " and ".join(m.seg(t) for t, p in pyflow.dominating_tests(node, stop=f) if p)
        t = _norm(tests)
        need = [("options.F_CFIisFalse", "notoptions.F_CFI", "options.F_CFI==False"), ("intent=='in'",), ("is_ptr==1",),
                ("arg_typemap.name=='char'",)]
        missing = [alts[0] for alts in need if not any(x in t for x in alts)]
        run.check(R, "generate.VerifyAttrs.check_arg_attrs:ftrim-guard", not missing,
                  "the Fortran-side trim applies to intent(in) single-indirection char without F_CFI only; "
                  "guard lacks %s" % missing, m.loc(node), sample=dict(guard=tests))
    impl = wf.func("Wrapf.wrap_function_impl")
    sites = [n for n in ast.walk(impl) if isinstance(n, ast.If) and "ftrim_char_in" in wf.seg(n.test)]
    ok = False
    if sites:
        body = "\n".join(wf.seg(s) for s in sites[0].body)
        strs = " ".join(pattern.strings(sites[0].body))
        ok = "trim({})//C_NULL_CHAR" in strs and "C_NULL_CHAR" in pattern.strings(sites[0].body) and \
            pattern.has(sites[0].body, "need_wrapper = True") and "character(len=*), intent(IN)" in strs
    run.check(R, "wrapf.Wrapf.wrap_function_impl:ftrim", ok,
              "the Fortran wrapper must pass trim(arg)//C_NULL_CHAR, import C_NULL_CHAR and force a wrapper",
              wf.loc(sites[0]) if sites else wf.loc(impl))
    # with F_CFI every character argument (char* of any intent, std::string) is converted by the CFI statements:
    # the selection depends on the type and indirection only, never on the intent
    ac = gm.func("GenFunctions.arg_to_CFI")
    marks = [a for a in ast.walk(ac) if isinstance(a, ast.Assign) and isinstance(a.targets[0], ast.Subscript)
             and gm.seg(a.targets[0].value) == "cfi_args" and isinstance(a.value, ast.Constant) and a.value.value is True]
    bad = []
    for a in marks:
        for t, pol in pyflow.dominating_tests(a, stop=ac):
            if "intent" in gm.seg(t):
                bad.append(gm.seg(t))
    run.check(R, "generate.GenFunctions.arg_to_CFI:cfi_args", len(marks) >= 3 and not bad,
              "whether an argument is handled by the CFI statements depends on its intent (%s): in a CFI wrapper the other "
              "character arguments are passed raw - untrimmed and without NUL" % bad, gm.loc(ac))
    # consumer 2: arg_to_buffer does not create a buffer argument for such parameters
    ab = gm.func("GenFunctions.arg_to_buffer")
    uses = [n for n in ast.walk(ab) if isinstance(n, ast.If) and "ftrim_char_in" in gm.seg(n.test)]
    kinds = sorted(type(u.body[0]).__name__ for u in uses)
    run.check(R, "generate.GenFunctions.arg_to_buffer:ftrim-skip", kinds == ["Continue", "Pass"],
              "arg_to_buffer must skip ftrim_char_in arguments both when deciding and when marking buffer arguments "
              "(found %s)" % kinds, gm.loc(ab), sample=dict(skips=kinds))


def rule_r6(repo, run, table):
    R = run.rule("C10.R6", "allocatable character results use the C string's length for allocation and copy")
    n = 0
    for name, e in sorted(table.resolve_all("c++").items()):
        if re.match(r"^f_(char|string)_.*_result_buf_allocatable$", name):
            n += 1
            post = [_norm(x) for s in e.lines("post_call") for x in templ.code_lines(s)]
            loc = table.loc(e.raw)
            alloc = [p for p in post if p.startswith("allocate(")]
            call = [p for p in post if p.startswith("call")]
            ok = len(alloc) == 1 and "character(len={c_var_context}%elem_len)::{f_var}" in alloc[0]
            run.check(R, "statements.fc_statements[%s]:allocate" % name, ok,
                      "the result must be allocated with len = context%%elem_len, found %s" % alloc, loc,
                      sample=dict(entry=name, allocate=alloc))
            ok2 = len(call) == 1 and call[0].endswith("({c_var_context},{f_var},{c_var_context}%elem_len)") and \
                "{hnamefunc0}" in call[0]
            run.check(R, "statements.fc_statements[%s]:copy" % name, ok2,
                      "the copy helper must receive the same elem_len as length, found %s" % call, loc)
            run.check(R, "statements.fc_statements[%s]:helpers" % name,
                      e.get("f_helper") == "copy_string" and e.get("c_helper") == "copy_string",
                      "both the Fortran interface and the C body of copy_string must be requested", loc)
        if re.match(r"^c_(char|string)_.*_result_buf_allocatable$", name):
            n += 1
            post = [_norm(x) for s in e.lines("post_call") for x in templ.code_lines(s)]
            loc = table.loc(e.raw)
            if any("ShroudStrToArray" in p for p in post):
                run.ok(R, "statements.fc_statements[%s]:elem_len-from-helper" % name)
                continue
            el = [p for p in post if p.startswith("{c_var_context}->elem_len=")]
            ok = len(el) == 1 and "strlen({cxx_var})" in el[0] and "{cxx_var}=={nullptr}?0:" in el[0]
            run.check(R, "statements.fc_statements[%s]:elem_len" % name, ok,
                      "elem_len must be strlen of the result, 0 for NULL; found %s" % el, loc,
                      sample=dict(entry=name, elem_len=el))
    run.floor(R, "allocatable character result entries", n, 6)
    # ShroudStrToArray: empty string -> elem_len 0 ; else length()
    h = tables.build_helper_table(repo).c.get("ShroudStrToArray")
    if h is None:
        raise AnalysisError("C10.R6: ShroudStrToArray vanished")
    code = _norm(templ.strip_c_comments(tables.helper_text(h, "source")))
    run.check(R, "whelpers.CHelpers[ShroudStrToArray]", "if(src->empty()){" in code and "array->elem_len=0;" in code and
              "array->elem_len=src->length();" in code and "array->addr.ccharp=src->data();" in code,
              "ShroudStrToArray must record length() (0 for an empty string) and data()", repo.module("whelpers").loc(h.node))


def rule_r7(repo, run, table):
    R = run.rule("C10.R7", "a bufferified or CFI lookup never falls back to an entry without length arguments that "
                           "copies text (over the lookup closure)")
    from checks import c01
    n = 0
    have = set(x for name in table.resolve_all("c++") for x in [name])
    for cpath, ce in sorted(c01.lookup_cpaths(table).items()):
        suf = cpath[4]
        if not suf or ce is None or cpath[1] not in ("char", "string"):
            continue
        n += 1
        code = [l for l in ce.lines("pre_call") + ce.lines("post_call")
                if re.search(r"strcpy|strncpy|ShroudStr|std::string|memcpy", l)]
        fell_back = ("_" + suf) not in ce.name
        run.check(R, "statements.fc_statements[%s]<-%s" % (ce.name, "_".join(x for x in cpath if x)),
                  not (fell_back and code),
                  "the lookup %s resolves to %s, which has no `%s` part but carries copy code (%s): the caller's length "
                  "arguments are not passed and text is copied unbounded (strcpy) / without blank padding"
                  % ([x for x in cpath if x], ce.name, suf, (code[0][:50] if code else "")), table.loc(ce.raw),
                  sample=dict(lookup=[x for x in cpath if x], resolved=ce.name))
    run.floor(R, "suffixed lookups", n, 30)


def rule_r8(repo, run):
    R = run.rule("C10.R8", "a string result by value / by reference / by pointer is fetched by the statements written for that "
                           "form: the C wrapper selects result statements by the function's own indirection (C02.R15)")
    from checks import c02
    from sa.report import import_rules
    import_rules(run, R, c02, repo, {"C02.R15"}, only=lambda c: "result-indirection" in c)



def rule_r9(repo, run):
    R = run.rule("C10.R9", "the body of a C wrapper is put together as pre_call - call - post_call (copy the result text out of "
                           "the C++ object) - final (the user's clean-up, which may delete that object) - return")
    wc = repo.module("wrapc")
    fn = wc.func("Wrapc.wrap_function")
    ORDER = ["pre_call", "call_code", "post_call_pattern", "post_call", "final_code", "return_code"]
    sums = [a for a in ast.walk(fn) if isinstance(a, ast.Assign) and pyflow.is_name(a.targets[0], "C_code") and isinstance(a.value, ast.BinOp)]
    if len(sums) != 1:
        raise AnalysisError("C10.R9: the assembly `C_code = pre_call + ...` of Wrapc.wrap_function was not found")

    def flat(e):
        if isinstance(e, ast.BinOp) and isinstance(e.op, ast.Add):
            return flat(e.left) + flat(e.right)
        return [ast.unparse(e)]
    got = flat(sums[0].value)
    missing = [k for k in ORDER if k not in got]
    if missing:
        raise AnalysisError("C10.R9: %s no longer part of `C_code = ...`" % missing)
    seq = [g for g in got if g in ORDER]
    run.check(R, "wrapc.Wrapc.wrap_function:C_code-order", seq == ORDER,
              "the wrapper body is assembled as %s: with `final` in front of `post_call` a `+len` / bufferify result is copied out "
              "of an object the user's final clause already released" % " + ".join(got), wc.loc(sums[0]))


def run(repo, run, tier):
    tables.check_model_assumptions(repo)
    helpers = tables.build_helper_table(repo)
    table = tables.StatementTable(repo, "statements", "fc_statements")
    rule_r1(repo, run, helpers)
    rule_r2(repo, run, table)
    rule_r3(repo, run)
    rule_r4(repo, run, helpers)
    rule_r5(repo, run)
    rule_r6(repo, run, table)
    rule_r7(repo, run, table)
    rule_r8(repo, run)
    rule_r9(repo, run)
    run.assumptions.extend([
        "clang 14 as parser only (-fsyntax-only, JSON AST); helper contracts (what callers guarantee) are "
        "the table CONTRACTS in checks/c10.py, discharged at the call sites by C10.R2",
        "sizes fit in int (no overflow modelling); libc functions memcpy/memset/strncpy/strlen have their "
        "standard meaning",
    ])
