# claims / not-applicable table, exec'd by mkmanifest.py
claim("C04",
      "sibling-agreement analysis over ast + table models (C prototype emitter vs Fortran interface/impl emitters, "
      "c_arg_decl/f_arg_decl pairs, struct/derived-type helpers, SH_TYPE tables, typemap kinds)",
      "Decides, on every run from the current source, that every code path and table entry that can emit a "
      "bind(C) dummy argument, derived type or type-code constant has an interoperable C sibling (same keys, "
      "arity, order, kinds, value/reference passing, imports). This is structural and complete over the tables; "
      "it does not enumerate per-declaration run-time attributes.",
      "Trusted: python ast, sa/ table model (re-validated against statements.py each run), LP64 ISO_C_BINDING table.",
      "DESIGN.md §4 C04")

claim("C05",
      "uses-subset-of-provides analysis over statement/type/helper tables and inline templates (format-field def/use, "
      "helper closure, libc headers, ISO_C_BINDING imports, option templates, emitter attributes, visitor coverage)",
      "Decides the clause 'no emitted fragment references something that is never provided': every template field, "
      "helper function, libc header, Fortran module symbol, option template and visitor method that generated code or "
      "the generator itself relies on is defined by the table entry/emitter that uses it. Whole-file compilability of "
      "generated output is not decided (needs the target compilers).",
      "Trusted: python ast, sa/ table models, over-approximate field universe (a report means no definition exists at all).",
      "DESIGN.md §4 C05")

claim("C07",
      "whole-program effect analysis (global/class-level mutable state inventory with alias- and call-propagated "
      "mutation sites, reset/overwrite classification), table symmetry, nondeterminism-source and set-iteration lints",
      "Decides the absence, in the current source, of every mechanism by which two runs with equal inputs could "
      "differ: state surviving a run in module/class-level containers, one-sided language clauses in shared tables, "
      "clock/random/env/pid/id/hash sources, append-mode files, iteration over sets, mutated shared defaults. "
      "Byte equality of actual runs is not executed.",
      "Trusted: python ast; own call resolution (module functions, self.methods via MRO, unique names); dict order is insertion order.",
      "DESIGN.md §4 C07")

claim("C15",
      "guard/effect and pairing analysis over ast + call graph (emitter guards in main_with_args, cfiles/ffiles "
      "registration paired with write_output_file, directory per emitter, wrap-flag propagation guards, "
      "Python/Lua non-interference reads, per-declaration entry guards)",
      "Decides from the current source that every file write is registered with identical name/dir expressions and "
      "goes to its emitter's directory option, that emitters only run under their own flag, that generated "
      "declarations never get a language switched on that their source had off, and that the C/Fortran emitters read "
      "no Python/Lua flag, option or format field. Equality of real output directories is not executed.",
      "Trusted: python ast; call resolution by own symbol tables; domain assumption: Fortran is requested only together with C.",
      "DESIGN.md §4 C15")

claim("C16",
      "guard/effect classification over ast (option-guarded regions, def-use closure of flag locals, comment-leader "
      "prefix analysis of appended text, comment-only method summaries)",
      "Decides from the current source that in every emitter both branches of every test on debug, debug_index, "
      "doxygen, per-node literalinclude and show_splicer_comments only append text whose constant prefix is a comment "
      "leader (or blank), call comment-only methods, or set locals/format fields used only in such contexts; that no "
      "file/helper registration happens under those guards; and that the version string only reaches the comment "
      "header line. Unresolvable effects are listed in evidence and never alarmed.",
      "Trusted: python ast; comment leader table per emitter; library-level literalinclude2 excluded as the property states.",
      "DESIGN.md §4 C16")

claim("C12",
      "writer/reader sibling agreement and path-sensitive push/pop typestate over ast (marker constants, precedence "
      "chain, splicer stack pairing on all feasible paths, reader state machine, merge sites, data-vs-directive rule)",
      "Decides from the current source that the splicer markers written by _create_splicer are exactly what "
      "get_splicers reads, that force > user > default precedence holds, that every _push_splicer is closed by a "
      "_pop_splicer of the same name on every feasible path (so blocks land under the names the reader reconstructs), "
      "that the reader keeps only rstrip()ped lines between markers, and that every splicer source is merged per "
      "block. One genuine defect stays as known finding (trailing '+' of user lines eaten by the layout interpreter).",
      "Trusted: python ast; path enumeration with correlated-branch pruning on stable parameters.",
      "DESIGN.md §4 C12")
claim("C13",
      "structural analysis of write_lines/write_continue over ast (directive table extraction, slice-vs-test "
      "agreement, path conservation with flag-constant feasibility, continuation marker and limit constants)",
      "Decides the structural necessary conditions of the wrapping property: only tested, documented metacharacters "
      "are ever removed, every arm writes the remaining text, only tab/form-feed/leading-CR are dropped as hints, on "
      "every feasible path of the emission loop a part is appended or the path is the form-feed/empty-part path, the "
      "pending line is written before being reset, broken lines carry self.cont, and default limits respect 132 "
      "columns. The universally quantified functional statement over all strings/widths is not decided.",
      "Trusted: python ast; documented directive set {# @ ^ + -} from docs/input.rst.",
      "DESIGN.md §4 C13")

claim("C17",
      "error-discipline and parser-grammar analysis over ast (raise-type lint, None-contradiction with one-level "
      "propagation, EOF obligation at parser entry points, regex-AST analysis of the token table, loop-progress and "
      "left-recursion analysis of the recursive-descent parser, bracket pairing on paths, raw-YAML subscript guards)",
      "Decides definite internal failures and definite silent acceptances that are visible in the source: wrong "
      "exception classes, dereference of a parameter that the code itself treats as possibly None, parser entry points "
      "that do not require EOF, token alternatives that can match empty or shadow a longer literal, parser loops or "
      "recursions that can run without consuming a token, opening brackets not closed by mustbe on a normal exit, and "
      "unguarded constant-key subscripts on raw YAML data. Absence of implicit exceptions for all inputs is not decided.",
      "Trusted: python ast and re._parser; 'definitely consuming' summaries are a least fixed point over the parser methods.",
      "DESIGN.md §4 C17")

claim("C14",
      "sibling agreement and scope-wiring analysis over ast (argparse dests vs create_wrapper vs reads in "
      "main_with_args, Scope parent chains per node constructor, BlockNode duck-type conformance against "
      "NamespaceMixin and its documented parents, attrs merge targets, command-line merge keys, Scope contract)",
      "Decides the wiring that makes equivalent spellings equivalent: every node's option/format scope is chained to "
      "its container's scope and user values land on the node's own scope, clones get their own scopes, blocks alias "
      "their parent's containers, YAML attrs are merged into the parser's attribute mapping, command-line options are "
      "stored under the keys LibraryNode reads, and the three producers/consumers of the argument namespace agree. "
      "Output equality itself is not executed. One known finding (block inside a class).",
      "Trusted: python ast; documented parents taken from BlockNode's docstring.",
      "DESIGN.md §4 C14")

claim("C09",
      "parser/unparser sibling analysis over ast (fields written by the recursive-descent parser vs fields read by "
      "gen_decl_work / gen_arg_as_lang, emission order, node-kind visitor coverage, precedence table vs C++, canonical "
      "type table vs type table)",
      "Decides the parser/unparser contract on the current source: nothing the parser records about a declaration is "
      "dropped by the re-parsable renderer or (for type-affecting parts) by the prototype renderer, both renderers emit "
      "the parts in the same order, every node the parser can create can be printed, operator precedence and "
      "associativity follow C++, and canonical type spellings resolve. Agreement with a real C++ compiler over all "
      "declarator shapes is not decided.",
      "Trusted: python ast; C++ operator precedence table in the checker.",
      "DESIGN.md §4 C09")
claim("C11",
      "twin-computation analysis of EnumNode.__init__ over ast plus grammar analysis of the expression parser "
      "(OPINFO_MAP precedence vs the textual successor template, frozen operator-semantics table, identifier rewrite "
      "table completeness, emitter key agreement)",
      "Decides that the C and Fortran enumerator values are produced by identical computations up to the member-name "
      "key, that the implicit successor is previous+1 with correct restarts, that `base+incr` is value-preserving for "
      "every operator the grammar accepts, that accepted operators mean the same in C and Fortran, and that the "
      "emitters print exactly those values. The numbers a C++ compiler assigns are not computed.",
      "Trusted: python ast; table of operators with identical C/Fortran integer semantics (+ - * /).",
      "DESIGN.md §4 C11")

claim("C08",
      "pairing/typestate analysis of clone sites in GenFunctions on all paths, name-template field analysis against "
      "docs/reference.rst, suffix-source data-flow checks, generic-interface writer/reader agreement",
      "Decides from the current source that every generated variant (default-argument, template, generic, bufferify, "
      "CFI, return_this, class instantiation) is registered exactly once, is marked generated, and either gets a "
      "per-variant suffix or replaces its original; that the default name templates contain every distinguishing "
      "field and equal the documented defaults; that suffix sources are per-variant indices; and that generic "
      "interfaces list the registered specifics. Global uniqueness over arbitrary user names is not decided.",
      "Trusted: python ast; docs/reference.rst as the statement of documented defaults.",
      "DESIGN.md §4 C08")

claim("C10",
      "bounds proofs of the embedded C helpers (clang JSON AST, path-splitting abstract interpretation over linear "
      "integer arithmetic, Fourier-Motzkin discharge) + dimension typing of helper call sites in the statement "
      "tables + sibling agreement of C/C++ helper variants and of length producers/consumers",
      "For the helper bodies the obligations offset>=0, length>=0, offset+length<=capacity of every memcpy/memset/"
      "strncpy/subscript are generated from the current whelpers.py source in both language variants and all are "
      "discharged (obligations == discharged is required) from the documented caller contracts; the contracts are in "
      "turn discharged at every call site of the statement tables by a Len/Trim/Size/StrLen typing of the template "
      "arguments. Also decides NUL/blank conventions, C vs C++ variant equality, Fortran-side trim+NUL wiring and "
      "allocatable result lengths. Run-time behaviour of compiled code is not executed.",
      "Trusted: clang 14 as parser; libc function meanings; helper contract table in checks/c10.py; no int overflow modelling.",
      "DESIGN.md §4 C10")

claim("C06",
      "typestate/pairing analysis over the statement tables and emitted release code (alloc/free of temporaries, "
      "new/destructor type agreement, slot-0 convention, idempotent release, Python reference hand-over on normal and "
      "fail paths) + bounds proofs of helper bodies shared with C10",
      "Decides from the current source the structural necessary conditions of exactly-once release: temporaries are "
      "freed by the matching helper on the same variable, every heap object handed to the caller carries a destructor "
      "of its own type and a stored index, index 0 is the registered no-op, the release function resets the capsule, "
      "Fortran final/delete share one release function, Python converter references are released or handed over on "
      "every exit, and helpers stay inside their buffers. Call histories of compiled code are not executed.",
      "Trusted: python ast, table model, clang as parser for R5; CPython new-reference API list in the checker.",
      "DESIGN.md §4 C06")

claim("C03",
      "table/template analysis over ast + table models (PyArg_Parse unit widths vs C types, C-API argument kinds, "
      "parse/build arity, error-path discipline after PyErr_*, tuple order, argument counter siblings)",
      "Decides necessary conditions of call-equivalence that are visible in the tables and templates: every "
      "PyArg_Parse unit stores exactly the size of its variable, tuple/dict C-API calls get the right wrapper "
      "parameter, format strings and argument lists have equal arity, every error set in a template is followed by "
      "leaving with the error value (no SystemError), the result is first in the returned tuple and the argument "
      "counters add tuple and keyword sizes. Behaviour of the compiled extension is not executed. One known finding "
      "(dispatcher arity counts non-Python arguments).",
      "Trusted: python ast, table model, CPython format-unit table and LP64 sizes in the checker.",
      "DESIGN.md §4 C03")

claim("C18",
      "table and emitter-shape analysis over ast + table models (Lua type/pop/push family agreement per typemap, "
      "dispatch construction in Wrapl.wrap_function, stack-index and result-push consistency in lua_statements)",
      "Decides the structural necessary conditions of Lua call-equivalence: pop/push/type-tag of every supported type "
      "agree with its C type and use the argument's own stack slot, one call variant exists per admissible argument "
      "count, variants are selected by stack depth and lua_type of each slot, every non-matching shape reaches a "
      "luaL_error arm, result counts are set in every arm, and statement templates are well formed. Behaviour of the "
      "compiled binding is not executed.",
      "Trusted: python ast, table model, Lua C-API family table in the checker.",
      "DESIGN.md §4 C18")

claim("C02",
      "emitter-shape and table analysis over ast + table models (this recovery, ordered accumulation of prototype/call "
      "lists, dereference triples, cxx_to_c/c_to_cxx pairs, qualifier fidelity, C name template, call-target links)",
      "Decides the structural necessary conditions of C/C++ call equivalence in the C emitter: instance methods "
      "recover `this` from the handle and call through it, static methods through the class scope, prototype and "
      "call lists are appended in declaration order only, address/dereference forms are consistent for every "
      "pointer/reference/value combination, type conversions come in inverse pairs, rendered qualifiers are what was "
      "parsed, the C name carries every disambiguating part, and every generated variant reaches the C++ function "
      "through _PTR_C_CXX_index. Run-time equality of values is not executed.",
      "Trusted: python ast, sa/ table models, dereference truth table in the checker.",
      "DESIGN.md §4 C02")

claim("C01",
      "writer/reader and sibling-agreement analysis over ast + statement-table lookup closure (call-target links, "
      "local-copy completeness, ordered accumulation in the parameter loop, c_*/f_* entry pairing over all reachable "
      "lookup paths, NUL-termination producer/consumers, per-argument scope use)",
      "Decides structural necessary conditions of Fortran call equivalence: every generated variant links to the C "
      "function it must call and the emitter follows the links; bool/local-copy entries convert in and back "
      "according to intent; dummy names, declarations and actual arguments are accumulated in declaration order; "
      "for every (f_*, c_*) entry pair reachable through the lookup (with and without F_CFI) the Fortran entry "
      "passes exactly the arguments the C entry declares and reads only context/capsule it is given; character "
      "input is trimmed and NUL terminated; per-argument code uses the argument's own blocks. Run-time equality of "
      "values in compiled code is not executed.",
      "Trusted: python ast, sa/ table models and lookup-closure model (re-validated against statements.lookup_fc_stmts).",
      "DESIGN.md §4 C01")
