#!/bin/bash
# Developer aid (NOT a check): run every regression/input/*.yaml with two shroud
# trees (pinned snapshot vs /repo working tree) and diff the outputs, to confirm
# that a "fix:" commit changes only what it is meant to change.
# usage: tools/regress_diff.sh [base-commit]   (default: d131d1f, the pinned snapshot)
BASE=${1:-d131d1f}
W=/tmp/regress.$$
mkdir -p $W
git -C /repo worktree add -f --detach $W/base $BASE >/dev/null 2>&1 || exit 2
run_tree() {  # $1 tree  $2 outroot
  for y in /repo/regression/input/*.yaml; do
    n=$(basename $y .yaml); o=$2/$n; mkdir -p $o
    (cd $1 && PYTHONPATH=$1 /venv/bin/python -c "import sys; sys.argv=['shroud','--outdir','$o','--logdir','$o','--path','/repo/regression/input','$y']; import shroud.main as m; m.main()" >$o/STDOUT 2>&1)
  done
}
run_tree $W/base $W/out-base &
run_tree /repo $W/out-new &
wait
grep -rl "$W/out-" $W/out-base $W/out-new 2>/dev/null | xargs -r sed -i "s#$W/out-[a-z]*#OUT#g"
diff -r -x '*.log' -x STDOUT $W/out-base $W/out-new > $W/DIFF
echo "diff lines: $(wc -l < $W/DIFF)"; head -${LINES_SHOWN:-60} $W/DIFF
git -C /repo worktree remove --force $W/base
rm -rf $W
