"""Decision-table extraction: evaluate an if/elif/else chain of the analysed
program under an *abstract description* of its input and report which arm is
taken.  Tests are evaluated three-valued; anything the oracle cannot answer
makes the result None (unmodelled - never an alarm)."""
import ast

from . import pyflow


def evaluate(test, oracle):
    """True / False / None"""
    if isinstance(test, ast.UnaryOp) and isinstance(test.op, ast.Not):
        v = evaluate(test.operand, oracle)
        return None if v is None else (not v)
    if isinstance(test, ast.BoolOp):
        vals = [evaluate(v, oracle) for v in test.values]
        if isinstance(test.op, ast.And):
            if any(v is False for v in vals):
                return False
            return None if any(v is None for v in vals) else True
        if any(v is True for v in vals):
            return True
        return None if any(v is None for v in vals) else False
    return oracle(test)


def take(stmts, oracle):
    """Follow if-chains through `stmts`; returns the list of simple statements
    executed, or None when a test cannot be decided."""
    out = []
    for st in stmts:
        if isinstance(st, ast.If):
            v = evaluate(st.test, oracle)
            if v is None:
                return None
            sub = take(st.body if v else st.orelse, oracle)
            if sub is None:
                return None
            out.extend(sub)
            if sub and isinstance(sub[-1], (ast.Return, ast.Raise, ast.Continue, ast.Break)):
                return out
        else:
            out.append(st)
            if isinstance(st, (ast.Return, ast.Raise, ast.Continue, ast.Break)):
                return out
    return out


def pointer_predicates(dm):
    """Semantics of declast.Declaration.is_pointer / is_reference / is_indirect derived from
    their bodies: the set of Ptr.ptr operators each one counts."""
    sem = {}
    for name in ("is_pointer", "is_reference", "is_indirect"):
        f = dm.func("Declaration." + name)
        ops = None
        for n in ast.walk(f):
            if isinstance(n, ast.If):
                t = n.test
                if isinstance(t, ast.Compare) and (pyflow.dotted(t.left) or "").endswith(".ptr") \
                        and isinstance(t.ops[0], ast.Eq):
                    c = pyflow.const_str(t.comparators[0])
                    if c in ("*", "&"):
                        ops = {c}
                elif (pyflow.dotted(t) or "").endswith(".ptr"):
                    ops = {"*", "&"}
        if ops is not None:
            sem[name] = ops
    return sem


def atoms(test, out=None):
    """atomic sub-tests (leaves under not/and/or), by source text"""
    out = [] if out is None else out
    if isinstance(test, ast.UnaryOp) and isinstance(test.op, ast.Not):
        atoms(test.operand, out)
    elif isinstance(test, ast.BoolOp):
        for v in test.values:
            atoms(v, out)
    else:
        t = ast.unparse(test)
        if t not in out:
            out.append(t)
    return out


def chain_atoms(stmts):
    out = []
    for st in stmts:
        if isinstance(st, ast.If):
            atoms(st.test, out)
            for t in chain_atoms(st.body) + chain_atoms(st.orelse):
                if t not in out:
                    out.append(t)
    return out


def outcomes(stmts, fixed, limit=4096):
    """Enumerate every truth assignment of the atoms of the if-chains in `stmts` that are not in
    `fixed` (source text -> bool); yield (assignment, executed simple statements)."""
    import itertools
    free = [a for a in chain_atoms(stmts) if a not in fixed]
    if 2 ** len(free) > limit:
        raise ValueError("too many atoms: %d" % len(free))
    for bits in itertools.product((False, True), repeat=len(free)):
        asg = dict(fixed)
        asg.update(zip(free, bits))
        taken = take(stmts, lambda e, asg=asg: asg.get(ast.unparse(e)))
        yield asg, taken
