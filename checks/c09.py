"""C09 - declarations are understood exactly as a C++ compiler understands
them.  Decided: the parser / unparser contract."""
import ast
import re

from sa import pattern as pat, pyflow, tables
from sa.consteval import Evaluator, is_unknown
from sa.loader import AnalysisError, enclosing_function, enclosing_class

EXPLANATION = (
    "Parser/unparser sibling analysis of declast.py and todict.py: (R1) every field of Declaration / "
    "Declarator / Ptr that the parser writes is read by the re-parsable renderer gen_decl_work of the "
    "same class, and the type-affecting ones by gen_arg_as_lang (prototype renderer); (R2) both "
    "renderers emit qualifier, type, template arguments, declarator, parameters, func_const and array "
    "in the same relative order, Ptr emits the operator before its own cv-qualifiers; (R3) every Node "
    "class the parser instantiates has a visit method in todict.PrintNode / ToDict where it can occur, "
    "and parentheses survive as ParenExpr; (R4) operator table precedence/associativity as in C++; "
    "(R5) every canonical type name maps to a registered typemap and is a join of type-specifier "
    "words; (R6) token table (shared with C17.R4).")
NOT_DECIDED = ("Agreement with a real C++ compiler over all declarator shapes (needs the compiler or a "
               "full C++ type model).")

TYPE_AFFECTING = {"const", "volatile", "declarator", "params", "func_const", "array", "template_arguments"}
# fields written by the parser that no renderer needs, with reason
NOT_RENDERED = {
    ("Declaration", "typemap"): "resolved type object; its name is rendered through specifier / typemap.<lang>_type",
    ("Declaration", "attrs"): "rendered by gen_attrs (checked separately)",
}


def _ctor_class(call):
    if isinstance(call, ast.Call):
        n = (pyflow.call_name(call) or "").split(".")[-1]
        if n in ("Declaration", "Declarator", "Ptr"):
            return n
    return None


def written_fields(dm, run, R):
    """{(Class, field): [locations]} written by Parser methods."""
    parser = dm.cls("Parser")
    ev = Evaluator(dm)
    quals = ev.eval(dm.toplevel_assign("type_qualifier"))
    if is_unknown(quals):
        raise AnalysisError("C09.R1: declast.type_qualifier not evaluable")
    out = {}
    # class of the `node` parameter of declaration_specifier: from call sites
    param_class = {}
    methods = {b.name: b for b in parser.body if isinstance(b, ast.FunctionDef)}
    changed = True
    while changed:
        changed = False
        for name, f in methods.items():
            local = {}
            for a in f.args.args:
                if (name, a.arg) in param_class:
                    local[a.arg] = param_class[(name, a.arg)]
            for n in ast.walk(f):
                if isinstance(n, ast.Assign) and len(n.targets) == 1 and isinstance(n.targets[0], ast.Name):
                    c = _ctor_class(n.value)
                    if c:
                        local[n.targets[0].id] = c
            for n in ast.walk(f):
                if isinstance(n, ast.Call) and isinstance(n.func, ast.Attribute) and pyflow.is_name(n.func.value, "self") \
                        and n.func.attr in methods:
                    callee = methods[n.func.attr]
                    pn = [a.arg for a in callee.args.args][1:]
                    for i, a in enumerate(n.args):
                        if isinstance(a, ast.Name) and a.id in local and i < len(pn):
                            if param_class.get((n.func.attr, pn[i])) != local[a.id]:
                                param_class[(n.func.attr, pn[i])] = local[a.id]
                                changed = True
    for name, f in methods.items():
        local = {}
        for a in f.args.args:
            if (name, a.arg) in param_class:
                local[a.arg] = param_class[(name, a.arg)]
        for n in ast.walk(f):
            if isinstance(n, ast.Assign) and len(n.targets) == 1 and isinstance(n.targets[0], ast.Name):
                c = _ctor_class(n.value)
                if c:
                    local[n.targets[0].id] = c
        for n in ast.walk(f):
            # node.X = ...
            if isinstance(n, ast.Assign):
                for t in n.targets:
                    if isinstance(t, ast.Attribute) and isinstance(t.value, ast.Name) and t.value.id in local:
                        out.setdefault((local[t.value.id], t.attr), []).append(dm.loc(n))
                    if isinstance(t, ast.Subscript) and isinstance(t.value, ast.Attribute) and \
                            isinstance(t.value.value, ast.Name) and t.value.value.id in local:
                        out.setdefault((local[t.value.value.id], t.value.attr), []).append(dm.loc(n))
            # node.X.append(...)
            if isinstance(n, ast.Call) and isinstance(n.func, ast.Attribute) and n.func.attr in ("append", "extend") \
                    and isinstance(n.func.value, ast.Attribute) and isinstance(n.func.value.value, ast.Name) \
                    and n.func.value.value.id in local:
                out.setdefault((local[n.func.value.value.id], n.func.value.attr), []).append(dm.loc(n))
            # lst = node.template_arguments ; lst.append(...)
            if isinstance(n, ast.Assign) and len(n.targets) == 1 and isinstance(n.targets[0], ast.Name) and \
                    isinstance(n.value, ast.Attribute) and isinstance(n.value.value, ast.Name) and n.value.value.id in local:
                alias = n.targets[0].id
                for m in ast.walk(f):
                    if isinstance(m, ast.Call) and isinstance(m.func, ast.Attribute) and m.func.attr == "append" \
                            and pyflow.is_name(m.func.value, alias):
                        out.setdefault((local[n.value.value.id], n.value.attr), []).append(dm.loc(m))
            # setattr(node, self.token.value, True) under TYPE_QUALIFIER
            if isinstance(n, ast.Call) and pyflow.is_name(n.func, "setattr") and n.args and \
                    isinstance(n.args[0], ast.Name) and n.args[0].id in local:
                conds = [dm.seg(t) for t, p in pyflow.dominating_tests(n, stop=f)]
                if any("TYPE_QUALIFIER" in c for c in conds):
                    for q in sorted(quals):
                        out.setdefault((local[n.args[0].id], str(q)), []).append(dm.loc(n))
                else:
                    raise AnalysisError("C09.R1: setattr on a declaration node outside a TYPE_QUALIFIER test at %s" % dm.loc(n))
            # attribute(node.attrs)
            if isinstance(n, ast.Call) and isinstance(n.func, ast.Attribute) and n.func.attr == "attribute" and n.args:
                a = n.args[0]
                if isinstance(a, ast.Attribute) and isinstance(a.value, ast.Name) and a.value.id in local:
                    out.setdefault((local[a.value.id], a.attr), []).append(dm.loc(n))
    return out


def reads_of(dm, cls, meth):
    f = dm.func("%s.%s" % (cls, meth))
    out = set()
    for n in ast.walk(f):
        if isinstance(n, ast.Attribute) and pyflow.is_name(n.value, "self") and isinstance(n.ctx, ast.Load):
            out.add(n.attr)
    # helpers called on self that read further fields (gen_attrs reads attrs through its parameter)
    for n in ast.walk(f):
        if isinstance(n, ast.Call) and isinstance(n.func, ast.Attribute) and pyflow.is_name(n.func.value, "self"):
            for a in n.args:
                if isinstance(a, ast.Attribute) and pyflow.is_name(a.value, "self"):
                    out.add(a.attr)
    return out, f


def first_use_order(dm, f, fields):
    """Order in which `fields` are first *emitted* (self.<field> read inside a statement
    that appends to the output) in function f."""
    order = []
    for n in sorted([x for x in ast.walk(f) if isinstance(x, ast.Attribute) and pyflow.is_name(x.value, "self")
                     and x.attr in fields], key=lambda x: (x.lineno, x.col_offset)):
        if n.attr not in order:
            order.append(n.attr)
    return order


def _c_type_of(words):
    """The C type denoted by a list of type-specifier words, as a sorted tuple: implicit `int`
    made explicit, redundant `signed` dropped, order of specifiers irrelevant (C11 6.7.2)."""
    ws = list(words)
    base = [w for w in ws if w not in ("short", "long", "unsigned", "signed", "complex", "_Complex")]
    if not base and any(w in ("short", "long", "unsigned", "signed") for w in ws):
        ws.append("int")
    if "char" not in ws:
        ws = [w for w in ws if w != "signed"]
    ws = ["complex" if w == "_Complex" else w for w in ws]
    return tuple(sorted(ws))


def rule_r7(repo, run):
    R = run.rule("C09.R7", "a function whose result is moved into an argument becomes `void name(...)`: set_return_to_void resets every "
                           "field that the printer writes in front of the declarator (qualifiers, type specifier, template "
                           "arguments), the typemap and the pointer list")
    dm = repo.module("declast")
    gd = dm.func("Declaration.gen_decl_work")
    sv = dm.func("Declaration.set_return_to_void")
    # statements of the printer up to the one that prints the declarator
    head = []
    for st in gd.body:
        if isinstance(st, ast.If) and "self.declarator" in ast.unparse(st.test):
            break
        head.append(st)
    fields = set()
    for st in head:
        for x in ast.walk(st):
            if isinstance(x, ast.Attribute) and pyflow.is_name(x.value, "self") and isinstance(x.ctx, ast.Load):
                fields.add(x.attr)
    fields -= {"attrs", "storage", "metaattrs"}      # attributes and the storage class are not part of the type
    if not {"const", "specifier", "template_arguments"} <= fields:
        raise AnalysisError("C09.R7: fields printed in front of the declarator not recognised (%s)" % sorted(fields))
    assigned = set()
    for a in ast.walk(sv):
        if isinstance(a, ast.Assign):
            for t in a.targets:
                assigned.add(ast.unparse(t).replace("self.", "", 1))
    for f_ in sorted(fields | {"typemap", "declarator.pointer"}):
        run.check(R, "declast.Declaration.set_return_to_void:%s" % f_, f_ in assigned,
                  "the printer writes `self.%s` as part of the type and set_return_to_void leaves it as it was: the void variant of "
                  "`std::vector<int> f()` is rendered `void<int> f(...)` / `int f_bufferify(...)`, which does not re-parse and "
                  "declares a result the body never returns" % f_, dm.loc(sv))



def rule_r8(repo, run):
    R = run.rule("C09.R8", "what a wrapper declares denotes the declared type: the object pointer of a method is const exactly when "
                           "the method is (`int f() const`, not `const int *f()`), a result that is a template is declared with "
                           "its arguments, and a typemap names its type in one way (C05.R24)")
    wc = repo.module("wrapc")
    fn = wc.func("Wrapc.wrap_function")
    # the test that decides `c_const` of the `this` argument: under `if cls:`, sets fmt_func.c_const
    sets = [a for a in ast.walk(fn) if isinstance(a, ast.Assign) and isinstance(a.targets[0], ast.Attribute)
            and a.targets[0].attr == "c_const" and pyflow.const_str(a.value) == "const "
            and any(ast.unparse(t) == "cls" and pol for t, pol in pyflow.dominating_tests(a, stop=fn))]
    if len(sets) != 1:
        raise AnalysisError("C09.R8: the const of the object pointer in Wrapc.wrap_function was not found")
    deciding = [t for t, pol in pyflow.dominating_tests(sets[0], stop=fn) if pol and ast.unparse(t) not in ("cls",)]
    src = []
    for t in deciding:
        for x in ast.walk(t):
            if isinstance(x, ast.Name):
                defs = [a for a in ast.walk(fn) if isinstance(a, ast.Assign) and pyflow.is_name(a.targets[0], x.id)]
                src.extend(ast.unparse(a.value) for a in defs)
            elif isinstance(x, ast.Attribute):
                src.append(ast.unparse(x))
    run.check(R, "wrapc.Wrapc.wrap_function:this-const", bool(src) and all(s_.endswith(".func_const") for s_ in src),
              "the object pointer is declared const when %s: the constness of the *method* is `func_const`; `const` is the constness "
              "of the result type - `const int *get()` would take a const object and call a non-const method through it, "
              "`int size() const` would refuse a const object" % sorted(set(src)), wc.loc(sets[0]))
    # result declarations of the Python wrapper
    wp = repo.module("wrapp")
    n = 0
    for q, f2 in sorted(wp.functions().items()):
        for a in ast.walk(f2):
            if isinstance(a, ast.Assign) and isinstance(a.value, ast.Call) and (pyflow.call_name(a.value) or "").endswith(".gen_arg_as_cxx") \
                    and re.search(r"rv_decl|alloc_decl|capsule_type", ast.unparse(a.targets[0])):
                n += 1
                kw = dict((k.arg, k.value) for k in a.value.keywords)
                ok = "with_template_args" in kw and isinstance(kw["with_template_args"], ast.Constant) and kw["with_template_args"].value is True
                run.check(R, "wrapp.%s:%s:template-arguments" % (q, ast.unparse(a.targets[0])), ok,
                          "the declaration of the result object is rendered without with_template_args=True: a `std::vector<int> *` "
                          "result is declared `int *` (the typemap of a vector renders its element type)", wp.loc(a))
    run.floor(R, "result declarations of the Python wrapper", n, 3)
    from checks import c05
    from sa.report import import_rules
    import_rules(run, R, c05, repo, {"C05.R24"})


def run(repo, run, tier):
    dm = repo.module("declast")
    tm = repo.module("todict")
    R1 = run.rule("C09.R1", "every field the parser writes is rendered")
    R2 = run.rule("C09.R2", "the two renderers emit the parts of a declaration in the same order")
    R3 = run.rule("C09.R3", "every parser node kind is printable; parentheses survive")
    R4 = run.rule("C09.R4", "operator precedence and associativity as in C++")
    R5 = run.rule("C09.R5", "canonical type names resolve to registered typemaps")

    written = written_fields(dm, run, R1)
    run.floor(R1, "parser-written fields", len(written), 14)
    for (cls, field), locs in sorted(written.items()):
        if (cls, field) in NOT_RENDERED:
            run.ok(R1, "declast.%s.%s:exempt" % (cls, field), sample=dict(reason=NOT_RENDERED[(cls, field)]))
            continue
        rd, f = reads_of(dm, cls, "gen_decl_work")
        run.check(R1, "declast.%s.gen_decl_work:%s" % (cls, field), field in rd,
                  "the parser records %s.%s (%s) but gen_decl_work never reads it: re-parsing shroud's own "
                  "rendering loses it" % (cls, field, locs[0]), dm.loc(f),
                  sample=dict(cls=cls, field=field, written_at=locs[:2]))
        if cls == "Declaration" and field in TYPE_AFFECTING:
            rd2, f2 = reads_of(dm, cls, "gen_arg_as_lang")
            run.check(R1, "declast.Declaration.gen_arg_as_lang:%s" % field, field in rd2,
                      "the parser records Declaration.%s but the prototype renderer gen_arg_as_lang never "
                      "reads it: emitted C/C++ prototypes denote a different type" % field, dm.loc(f2),
                      sample=dict(field=field))
    # attrs rendering: gen_attrs iterates the mapping it is given, sorted, skipping internal names
    ga = dm.func("Declaration.gen_attrs")
    s = dm.seg(ga)
    run.check(R1, "declast.Declaration.gen_attrs", "sorted(attrs)" in s and 'attr[0] == "_"' in s and
              '"{}({})".format(attr, value)' in s,
              "gen_attrs must render every user attribute as +name or +name(value)", dm.loc(ga))
    # once a type specifier has been read, an identifier is the declarator - also when it names a type
    # (`void setColor(int Color)` with an enum Color): every arm of declaration_specifier that records a
    # specifier also records that the type has been found
    ds = dm.func("Parser.declaration_specifier")
    loops_ = [l for l in ast.walk(ds) if isinstance(l, ast.While)]
    if len(loops_) != 1:
        raise AnalysisError("C09.R1: specifier loop of declaration_specifier not found")
    gate = [i for i in ast.walk(loops_[0]) if isinstance(i, ast.If) and "not found_type" in dm.seg(i.test)
            and "'ID'" in dm.seg(i.test)]
    if not gate:
        raise AnalysisError("C09.R1: the `not found_type and token is ID` test of declaration_specifier not found")
    nsp = 0
    for c in ast.walk(loops_[0]):
        if isinstance(c, ast.Call) and str(dm.seg(c.func)) == "node.specifier.append":
            nsp += 1
            arm = c
            while not (isinstance(getattr(arm, "_parent", None), ast.If) and arm._parent in ast.walk(loops_[0])
                       and (arm in arm._parent.body or arm in arm._parent.orelse)):
                arm = arm._parent
            body = arm._parent.body if arm in arm._parent.body else arm._parent.orelse
            sets = any(isinstance(a, ast.Assign) and pyflow.is_name(a.targets[0], "found_type")
                       and isinstance(a.value, ast.Constant) and a.value.value is True for st in body for a in ast.walk(st))
            run.check(R1, "declast.Parser.declaration_specifier:found_type@%s" % re.sub(r"\s+", "", str(dm.seg(c)))[:40], sets,
                      "the arm that records `%s` does not set found_type: an identifier after it that happens to name a "
                      "type (enum, class, typedef) is read as a second type specifier and the parameter loses its name"
                      % dm.seg(c), dm.loc(c))
    if nsp < 2:
        raise AnalysisError("C09.R1: specifier-recording arms of declaration_specifier not found")
    # str() of a pointer level / declarator is the second renderer of the same node (add_struct builds member
    # declarations from it): it shows every qualifier gen_decl_work shows
    for cls_ in ("Ptr", "Declarator"):
        try:
            fw, fs = dm.func(cls_ + ".gen_decl_work"), dm.func(cls_ + ".__str__")
        except Exception:
            raise AnalysisError("C09.R1: %s.gen_decl_work / __str__ not found" % cls_)
        def reads_(fn_):
            return set(x.attr for x in ast.walk(fn_) if isinstance(x, ast.Attribute) and pyflow.is_name(x.value, "self")
                       and isinstance(x.ctx, ast.Load))
        miss = sorted(reads_(fw) - reads_(fs))
        run.check(R1, "declast.%s.__str__:fields" % cls_, not miss,
                  "%s.gen_decl_work renders %s but %s.__str__ does not: str(decl) of `int * volatile p` drops the "
                  "qualifier, and struct members are re-parsed from that string" % (cls_, miss, cls_), dm.loc(fs))
    # a literal default value is stored with the value C++ gives it: a leading 0 makes it octal
    ini_ = dm.func("Parser.initializer")
    ints_ = [c for c in ast.walk(ini_) if isinstance(c, ast.Call) and pyflow.is_name(c.func, "int")]
    if not ints_:
        raise AnalysisError("C09.R1: int() of Parser.initializer not found")
    oct_ = [c for c in ints_ if len(c.args) == 2 and isinstance(c.args[1], ast.Constant) and c.args[1].value == 8
            and any("[0] == '0'" in str(dm.seg(t)) and p for t, p in pyflow.dominating_tests(c, stop=ini_))]
    run.check(R1, "declast.Parser.initializer:octal", bool(oct_),
              "an integer default value is converted with int(text): `int x = 010` is stored and rendered as 10 where C++ "
              "means 8", dm.loc(ints_[0]))
    # name lookup: a scope's own names hide those of the enclosing scopes (a template parameter `T`/`IndexType` hides a
    # typedef of the same name) - every unqualified_lookup consults self.symbols before it asks its parent
    nl = 0
    for modn in ("ast", "declast"):
        mm_ = repo.module(modn)
        for q_, fn_ in sorted(mm_.functions().items()):
            if not q_.endswith(".unqualified_lookup"):
                continue
            own = [x for x in ast.walk(fn_) if isinstance(x, ast.Attribute) and x.attr == "symbols" and pyflow.is_name(x.value, "self")]
            par = [c for c in ast.walk(fn_) if isinstance(c, ast.Call) and str(mm_.seg(c.func)) == "self.parent.unqualified_lookup"]
            if not own or not par:
                continue
            nl += 1
            first_own = min((x.lineno, x.col_offset) for x in own)
            first_par = min((c.lineno, c.col_offset) for c in par)
            run.check(R1, "%s.%s:own-names-first" % (modn, q_), first_own < first_par,
                      "the enclosing scope is searched before the scope's own names: a name declared here (a template "
                      "parameter) no longer hides a type of the same name declared outside, and nothing is substituted for it",
                      mm_.loc(fn_))
    if nl < 3:
        raise AnalysisError("C09.R1: unqualified_lookup implementations with own symbols and a parent not found (%d)" % nl)
    # only an *unset* attribute is left out: 0 and "" are values (+rank(0), +len(0))
    skips = [c for c in ast.walk(ga) if isinstance(c, ast.Continue)]
    for c in skips:
        tests = pyflow.dominating_tests(c, stop=ga)
        if not tests:
            continue
        t, pol = tests[0]
        txt = str(dm.seg(t))
        if "value" not in txt:
            continue
        run.check(R1, "declast.Declaration.gen_attrs:unset-only", txt.endswith("is None") and pol,
                  "an attribute is left out of the rendering under `%s%s`: only None means unset - +rank(0) or +len(0) "
                  "disappear from gen_decl() and from every re-parse of it" % ("" if pol else "not ", txt), dm.loc(c))

    # nested declarations (template arguments, parameters) are rendered by a rendering call on the nested
    # node - reading one field of it (e.g. its typemap's internal name) drops qualifiers, pointers and spelling
    nn = 0
    for q, fn in sorted(dm.functions().items()):
        if not q.startswith(("Declaration.", "Declarator.")):
            continue
        for lp in ast.walk(fn):
            if not (isinstance(lp, ast.For) and isinstance(lp.target, ast.Name)):
                continue
            it = pyflow.dotted(lp.iter) or ""
            if it not in ("self.template_arguments", "self.params"):
                continue
            v = lp.target.id
            for call in ast.walk(lp):
                if isinstance(call, ast.Call) and isinstance(call.func, ast.Attribute) and call.func.attr == "append" \
                        and call.args and any(isinstance(x, ast.Name) and x.id == v for x in ast.walk(call.args[0])):
                    a = call.args[0]
                    nn += 1
                    rendered = isinstance(a, ast.Call) and (
                        (isinstance(a.func, ast.Name) and a.func.id == "str" and pyflow.is_name(a.args[0], v)) or
                        (isinstance(a.func, ast.Attribute) and pyflow.is_name(a.func.value, v)))
                    run.check(R1, "declast.%s:nested %s" % (q, it.split(".")[1]), rendered or isinstance(a, ast.Name),
                              "a nested declaration of %s is emitted as `%s` instead of through a rendering call "
                              "(str(x) / x.gen_*()): the nested type loses its spelling and qualifiers"
                              % (it, dm.seg(a)), dm.loc(call), sample=dict(method=q, emitted=dm.seg(a)))
    run.floor(R1, "nested-declaration emission sites", nn, 2)
    # a parsed parameter is dropped ("(void)" means no parameters) only when it has no declarator at all:
    # the declarator holds pointer operators, name, array and function parts
    pd = dm.func("Parser.declaration")
    drops = [n for n in ast.walk(pd) if isinstance(n, ast.Assign) and (pyflow.dotted(n.targets[0]) or "").endswith(".params")
             and isinstance(n.value, ast.List) and not n.value.elts]
    run.check(R1, "declast.Parser.declaration:(void)", len(drops) == 1,
              "expected exactly one place that turns `(void)` into an empty parameter list", dm.loc(pd))
    for d in drops:
        fields = set()
        whole = []
        for t, pol in pyflow.dominating_tests(d, stop=pd):
            whole.append(dm.seg(t))
            for x in ast.walk(t):
                if isinstance(x, ast.Compare) and isinstance(x.left, ast.Attribute):
                    if x.left.attr == "declarator" and isinstance(x.ops[0], ast.Is) and pol:
                        fields.add("declarator is None")
                    if x.left.attr == "specifier" and isinstance(x.ops[0], ast.Eq) and pol and \
                            isinstance(x.comparators[0], ast.List) and [pyflow.const_str(e) for e in x.comparators[0].elts] == ["void"]:
                        fields.add("specifier == [void]")
                if isinstance(x, ast.Compare) and isinstance(x.left, ast.Call) and pyflow.is_name(x.left.func, "len") and pol:
                    fields.add("single")
        run.check(R1, "declast.Parser.declaration:(void):lossless", fields >= {"declarator is None", "specifier == [void]", "single"},
                  "a parameter is discarded under %s: it must be the only parameter, spelled exactly `void`, and have no "
                  "declarator (otherwise `void *` / `void (*)()` parameters vanish)" % whole, dm.loc(d),
                  sample=dict(tests=whole))

    # independent qualifiers are rendered by independent tests: `const` and `volatile` (and a function's trailing
    # const) can all be present, so none may sit in the else-arm of another
    QUAL = ("const", "volatile", "func_const")
    nq = 0
    for q, fn in sorted(dm.functions().items()):
        if not q.split(".")[-1] in ("gen_decl_work", "gen_arg_as_lang", "__str__", "gen_decl", "_as_arg"):
            continue
        for node in ast.walk(fn):
            if isinstance(node, ast.If):
                a = pyflow.dotted(node.test) or ""
                if a.startswith("self.") and a[5:] in QUAL:
                    nq += 1
                    inner = [x for x in node.orelse if isinstance(x, ast.If)]
                    clash = [pyflow.dotted(x.test) for x in inner if (pyflow.dotted(x.test) or "").startswith("self.")
                             and (pyflow.dotted(x.test) or "")[5:] in QUAL and len(node.orelse) == 1]
                    run.check(R1, "declast.%s:%s" % (q, a), not clash,
                              "`%s` is only rendered when `%s` is absent (elif): a declaration carrying both qualifiers "
                              "loses one" % (clash[0] if clash else "", a), dm.loc(node), sample=dict(method=q, qualifier=a))
    run.floor(R1, "qualifier tests in the renderers", nq, 5)

    # abstract declarators: `void f(int *, const double &)` - a declarator without a name is dropped only when it has no
    # pointer/reference operators either
    pdcl = dm.func("Parser.declarator")
    drops2 = [a for a in ast.walk(pdcl) if isinstance(a, ast.Assign) and pyflow.is_name(a.targets[0], "node")
              and isinstance(a.value, ast.Constant) and a.value.value is None]
    for d in drops2:
        conds = [(dm.seg(t), pol) for t, pol in pyflow.dominating_tests(d, stop=pdcl)]
        run.check(R1, "declast.Parser.declarator:abstract", ("not node.pointer", True) in conds or ("node.pointer", False) in conds,
                  "the declarator is discarded under %s: an unnamed parameter keeps its `*` / `&` operators only if the "
                  "declarator survives whenever node.pointer is non-empty" % conds, dm.loc(d))
    if not drops2:
        raise AnalysisError("C09.R1: `node = None` of Parser.declarator not found")
    # Declarator rendering: force_ptr *replaces* the declared pointer chain, as_scalar suppresses it
    dg = dm.func("Declarator.gen_decl_work")
    loops = [l for l in ast.walk(dg) if isinstance(l, ast.For) and "self.pointer" in dm.seg(l.iter)]
    for l in loops:
        conds = [(dm.seg(t), pol) for t, pol in pyflow.dominating_tests(l, stop=dg)]
        need = [c for c in conds if "force_ptr" in c[0] and not c[1]], [c for c in conds if "as_scalar" in c[0] and not c[1]]
        run.check(R1, "declast.Declarator.gen_decl_work:pointer-chain", all(need),
                  "the declared pointer chain is printed under %s: it must be skipped both when force_ptr already printed "
                  "` *` and when as_scalar is requested (`T * & x` otherwise)" % conds, dm.loc(l))
    if not loops:
        raise AnalysisError("C09.R1: pointer loop of Declarator.gen_decl_work not found")
    # a typedef declared in a namespace/class is known to C++ under its scoped name
    am_ = repo.module("ast")
    ct = am_.func("NamespaceMixin.create_typedef_typemap")
    clone = pat.find(ct, "MV_T = MV_O.clone_as(self.scope + MV_K)")
    okc = False
    if len(clone) == 1:
        T_ = clone[0][1]["T"]
        okc = pat.has(ct, "%s.cxx_type = %s.name" % (T_, T_))
    run.check(R1, "ast.NamespaceMixin.create_typedef_typemap:cxx_type", okc,
              "the typedef's typemap is registered under scope + name; its cxx_type must be that scoped name as well, "
              "otherwise wrappers at file scope name a type that is only declared inside the namespace/class", am_.loc(ct))

    # every cv-qualifier token after `*` / `&` is recorded under its own name
    pp = dm.func("Parser.pointer")
    quals = [lp for lp in ast.walk(pp) if isinstance(lp, ast.While) and "TYPE_QUALIFIER" in dm.seg(lp.test)]
    okq = len(quals) == 1 and pat.has(quals[0], "setattr(MV_N, self.token.value, True)") and \
        not [a for a in ast.walk(quals[0]) if isinstance(a, ast.Assign) and isinstance(a.targets[0], ast.Attribute)
             and a.targets[0].attr in ("const", "volatile")]
    run.check(R1, "declast.Parser.pointer:qualifiers", okq,
              "the qualifier that follows a pointer operator must be stored under the name of the token that was read "
              "(setattr(node, token.value, True)); a fixed attribute records `volatile` as `const`", dm.loc(pp))
    # instantiating `const T *x` with T=int keeps the qualifiers of the templated declaration
    inst = dm.func("Declaration.instantiate")
    over = [dm.seg(a) for a in ast.walk(inst) if isinstance(a, ast.Assign) and isinstance(a.targets[0], ast.Attribute)
            and a.targets[0].attr in ("const", "volatile") and not isinstance(a.value, ast.BoolOp)]
    run.check(R1, "declast.Declaration.instantiate:qualifiers", not over,
              "instantiate() overwrites the cv-qualifiers of the templated declaration (%s): `const T &` instantiated "
              "with a plain type loses its const" % over, dm.loc(inst))
    # C++ name lookup: the class's own names hide those of enclosing scopes
    am2 = repo.module("ast")
    for cls_ in ("ClassNode", "NamespaceNode", "LibraryNode"):
        try:
            ul = am2.func(cls_ + ".unqualified_lookup")
        except AnalysisError:
            continue
        calls = [c for c in ast.walk(ul) if isinstance(c, ast.Call) and (pyflow.call_name(c) or "").endswith(".parent.unqualified_lookup")]
        if not calls:
            continue
        own = [x for x in ast.walk(ul) if isinstance(x, (ast.Subscript, ast.Call)) and "self.symbols" in am2.seg(x)
               and not any(x is y for c in calls for y in ast.walk(c))]
        first_own = min((x.lineno, x.col_offset) for x in own) if own else None
        first_par = min((c.lineno, c.col_offset) for c in calls)
        guarded = any("self.symbols" in am2.seg(t) for c in calls for t, pol in
                      (pyflow.early_exit_guards(ul, c) + pyflow.dominating_tests(c, stop=ul)))
        run.check(R1, "ast.%s.unqualified_lookup:inner-first" % cls_, bool(own) and (guarded or first_own < first_par),
                  "unqualified lookup asks the enclosing scope before (or without) looking at the scope's own symbols: a "
                  "nested name no longer hides a same-named outer one, as it does in C++", am2.loc(ul))

    # ---- R2 order
    common = ["const", "template_arguments", "declarator", "params", "func_const", "array"]
    o1 = [x for x in first_use_order(dm, dm.func("Declaration.gen_decl_work"), set(common)) if x in common]
    o2 = [x for x in first_use_order(dm, dm.func("Declaration.gen_arg_as_lang"), set(common)) if x in common]
    run.check(R2, "declast.Declaration:emission-order", o1 == o2 and o1[0] == "const" and
              o1.index("declarator") < o1.index("params") < o1.index("func_const") < o1.index("array"),
              "gen_decl_work emits %s, gen_arg_as_lang emits %s" % (o1, o2), dm.loc(dm.func("Declaration.gen_decl_work")),
              sample=dict(gen_decl_work=o1, gen_arg_as_lang=o2))
    # volatile directly follows const in both
    for meth in ("gen_decl_work", "gen_arg_as_lang", "__str__"):
        f = dm.func("Declaration." + meth)
        order = first_use_order(dm, f, {"const", "volatile", "specifier", "typemap", "storage"})
        if "volatile" in order and "const" in order:
            run.check(R2, "declast.Declaration.%s:cv-first" % meth,
                      order.index("const") < order.index("volatile") and
                      all(order.index("volatile") < order.index(x) for x in order if x in ("specifier", "typemap")),
                      "cv-qualifiers must precede the type specifier: %s" % order, dm.loc(f))
    pf = dm.func("Ptr.gen_decl_work")
    order = first_use_order(dm, pf, {"ptr", "const", "volatile"})
    run.check(R2, "declast.Ptr.gen_decl_work:order", order == ["ptr", "const", "volatile"],
              "a pointer operator must be printed before its own cv-qualifiers (T * const p): %s" % order, dm.loc(pf),
              sample=dict(order=order))
    # pointers are rendered in declaration order
    df = dm.func("Declarator.gen_decl_work")
    loops = [n for n in ast.walk(df) if isinstance(n, ast.For)]
    ok = len(loops) == 1 and dm.seg(loops[0].iter) == "self.pointer"
    run.check(R2, "declast.Declarator.gen_decl_work:pointer-order", ok,
              "the pointer chain must be rendered in source order (for ptr in self.pointer)", dm.loc(df))
    # parameters in order
    for meth in ("gen_decl_work", "gen_arg_as_lang"):
        f = dm.func("Declaration." + meth)
        loops = [n for n in ast.walk(f) if isinstance(n, ast.For) and dm.seg(n.iter) == "params"]
        run.check(R2, "declast.Declaration.%s:param-order" % meth, len(loops) == 1,
                  "parameters must be rendered by iterating the parameter list in order", dm.loc(f))

    # ---- R3 node kinds
    classes = dm.classes()
    node_classes = [q for q, c in classes.items() if any((pyflow.dotted(b) or "") == "Node" for b in c.bases)]
    instantiated = set()
    for cname in ("Parser", "ExprParser"):
        for n in ast.walk(dm.cls(cname)):
            if isinstance(n, ast.Call):
                nm = (pyflow.call_name(n) or "").split(".")[-1]
                if nm in node_classes:
                    instantiated.add(nm)
    for fn in ("check_dimension",):
        for n in ast.walk(dm.func(fn)):
            if isinstance(n, ast.Call) and (pyflow.call_name(n) or "") in node_classes:
                instantiated.add(pyflow.call_name(n))
    run.floor(R3, "node classes instantiated by the parser", len(instantiated), 14)
    todict = tm.cls("ToDict")
    tv = set(b.name[6:] for b in todict.body if isinstance(b, ast.FunctionDef) and b.name.startswith("visit_"))
    pn = tm.cls("PrintNode")
    pv = set(b.name[6:] for b in pn.body if isinstance(b, ast.FunctionDef) and b.name.startswith("visit_"))
    expr_nodes = {"Identifier", "BinaryOp", "UnaryOp", "ParenExpr", "Constant", "AssumedRank"}
    for nm in sorted(instantiated):
        run.check(R3, "todict.ToDict.visit_%s" % nm, nm in tv,
                  "the parser creates declast.%s but the JSON dump cannot visit it" % nm, tm.loc(todict))
        if nm in expr_nodes:
            run.check(R3, "todict.PrintNode.visit_%s" % nm, nm in pv,
                      "the parser creates expression node declast.%s but PrintNode cannot print it "
                      "(dimension/enum/array expressions are re-emitted through PrintNode)" % nm, tm.loc(pn))
    prim = dm.func("ExprParser.primary")
    run.check(R3, "declast.ExprParser.primary:paren", "ParenExpr(self.expression())" in dm.seg(prim) and "ParenExpr" in pv,
              "a parenthesised sub-expression must be kept as ParenExpr (BinaryOp is printed without "
              "parentheses)", dm.loc(prim))
    bo = tm.func("PrintNode.visit_BinaryOp")
    rn = set(a.targets[0].id for a in ast.walk(bo) if isinstance(a, ast.Assign) and isinstance(a.targets[0], ast.Name)
             and "self.visit(node.right)" in tm.seg(a.value))
    run.check(R3, "todict.PrintNode.visit_BinaryOp", "self.visit(node.left) + node.op + self.visit(node.right)" in tm.seg(bo)
              or any("self.visit(node.left) + node.op + %s" % r_ in tm.seg(bo) for r_ in rn),
              "binary expressions must be printed left op right", tm.loc(bo))

    # ---- R4
    node = dm.toplevel_assign("OPINFO_MAP")
    opinfo = {}
    for k, v in zip(node.keys, node.values):
        op = pyflow.const_str(k)
        if isinstance(v, ast.Call) and len(v.args) == 2:
            opinfo[op] = (v.args[0].value, pyflow.const_str(v.args[1]))
    cxx = {"*": 5, "/": 5, "%": 5, "+": 6, "-": 6, "<<": 7, ">>": 7, "&": 11, "^": 12, "|": 13}   # smaller binds tighter
    for a in sorted(opinfo):
        if a not in cxx:
            run.check(R4, "declast.OPINFO_MAP[%s]" % a, False, "operator %r has no C++ precedence in the checker table" % a, dm.loc(node))
            continue
        for b in sorted(opinfo):
            if b in cxx and a < b:
                same = (cxx[a] < cxx[b]) == (opinfo[a][0] > opinfo[b][0]) and (cxx[a] == cxx[b]) == (opinfo[a][0] == opinfo[b][0])
                run.check(R4, "declast.OPINFO_MAP[%s vs %s]" % (a, b), same,
                          "relative precedence of %r and %r differs from C++" % (a, b), dm.loc(node),
                          sample=dict(a=a, b=b, shroud=(opinfo[a][0], opinfo[b][0])))
        run.check(R4, "declast.OPINFO_MAP[%s].assoc" % a, opinfo[a][1] == "LEFT",
                  "binary %r is left-associative in C++" % a, dm.loc(node))
    ex = dm.func("ExprParser.expression")
    s = dm.seg(ex)
    run.check(R4, "declast.ExprParser.expression:climb", 'prec + 1 if assoc == "LEFT" else prec' in s and
              "OPINFO_MAP[op].prec < min_prec" in s and "BinaryOp(atom_lhs, op, atom_rhs)" in s,
              "precedence climbing loop changed shape", dm.loc(ex))

    # ---- R5
    ev = Evaluator(dm)
    canon = ev.eval(dm.toplevel_assign("canonical_typemap"))
    spec = ev.eval(dm.toplevel_assign("type_specifier"))
    if is_unknown(canon) or is_unknown(spec):
        raise AnalysisError("C09.R5: canonical_typemap / type_specifier not evaluable")
    types = tables.TypeTable(repo)
    keys = set(t["_key"] for t in types.types.values()) | set(types.types)
    for k, v in sorted(canon.items()):
        if k.startswith("_") or k in ("node", "ctor", "args"):
            continue
        run.check(R5, "declast.canonical_typemap[%s]" % k, str(v) in keys,
                  "canonical name %r is not a registered typemap: `%s x` is rejected as unknown type"
                  % (v, k.replace("_", " ")), dm.loc(dm.toplevel_assign("canonical_typemap")), sample=dict(key=k, value=str(v)))
        words = k.split("_")
        run.check(R5, "declast.canonical_typemap[%s]:same-type" % k, _c_type_of(words) == _c_type_of(str(v).split("_")),
                  "`%s` and `%s` are different C types (%s vs %s): declarations written with the first spelling "
                  "are wrapped with the wrong type" % (" ".join(words), str(v).replace("_", " "),
                                                      _c_type_of(words), _c_type_of(str(v).split("_"))),
                  dm.loc(dm.toplevel_assign("canonical_typemap")), sample=dict(key=k, value=str(v)))
        run.check(R5, "declast.canonical_typemap[%s]:words" % k, all(w in spec for w in words),
                  "key %r is not a join of type-specifier words %s" % (k, sorted(spec)),
                  dm.loc(dm.toplevel_assign("canonical_typemap")))
    # get_canonical_typemap joins specifiers with "_" and consults the table
    g = dm.func("Parser.get_canonical_typemap")
    s = dm.seg(g)
    run.check(R5, "declast.Parser.get_canonical_typemap", '"_".join(decl.specifier)' in s and
              "canonical_typemap.get(typename, typename)" in s and "error_msg" in s,
              "type lookup must join specifier words with '_' , map through canonical_typemap and report unknown types",
              dm.loc(g))
    # permutations of multi-word native types that C++ accepts: every documented one resolves
    native_multi = [k for k in keys if "_" in k and all(w in spec for w in k.split("_"))]
    for k in sorted(native_multi):
        run.ok(R5, "typemap[%s]:direct" % k)
    # the expression parser/printer is shared with enum values: operator table and printers (C11.R4, C11.R5)
    R6 = run.rule("C09.R6", "expression grammar: operator semantics and structure-preserving printing (C11.R4, C11.R5)")
    from checks import c11
    from sa.report import import_rules
    import_rules(run, R6, c11, repo, {"C11.R4", "C11.R5"}, only=lambda c: c.startswith(("declast.", "todict.")))
    # a native type is rendered for C with the C spelling of the same type (C02.R13)
    from checks import c02
    import_rules(run, R5, c02, repo, {"C02.R13"}, only=lambda c: c.startswith("typemap[") and "c_type" in c)
    rule_r7(repo, run)
    rule_r8(repo, run)
