#!/usr/bin/env python3
"""Development aid (no check depends on it): prepare a seeding round.

  python3 tools/mkround.py <N> [Cxx ...]

creates /tmp/seed<N>/ with, per property, a scratch git worktree of /repo's
HEAD (/tmp/seed<N>/Cxx), the property text (Cxx.property.json - nothing from
/verif besides that line of properties.jsonl) and a task file (Cxx.task.md)
that lists the places earlier rounds already changed.  The sub-agents are then
started by hand with the task file as their prompt; tools/intake.py takes
their results in.  Remove the worktrees afterwards:
  git -C /repo worktree remove --force /tmp/seed<N>/Cxx
"""
import glob
import json
import os
import subprocess
import sys

HERE = os.path.dirname(os.path.dirname(os.path.abspath(__file__)))

TASK = '''You are helping to evaluate how robust a code base is against subtle regressions. The code base is "shroud" (a Python code generator that reads YAML describing C/C++ declarations and emits C, Fortran, Python and Lua wrapper source). You have your OWN scratch git worktree of it at @ROOT@/@PID@ (detached HEAD). Work ONLY inside @ROOT@/@PID@ and write results ONLY to @ROOT@/out/@PID@/. Do NOT read, list or touch /verif, /repo, or any other @ROOT@/* directory - that matters for the experiment.

The semantic property you are concerned with is described in @ROOT@/@PID@.property.json (read it: "statement", "quantifier", "why_tests_cant" and "anchors" tell you what must hold and where in the code it is anchored).

Your task: produce THREE independent, realistic source changes to shroud (files under @ROOT@/@PID@/shroud/), each of which BREAKS this property, while
 (a) shroud still imports and runs, and the pinned test suite still passes:  cd @ROOT@/@PID@ && PYTHONPATH=@ROOT@/@PID@ /venv/bin/python -m pytest -ra -q -p no:cacheprovider --timeout=900 --continue-on-collection-errors   (baseline: "91 passed, 2 errors" - the 2 collection errors are pre-existing and expected);
 (b) the breakage needs something specific to manifest - a particular kind of declaration, attribute, option, argument shape, ordering, or input - i.e. it is the kind of bug a developer could plausibly introduce in a refactoring or a "small improvement" and not notice (an off-by-one, a wrong variable, a dropped branch, a swapped table entry, a missing reset, a wrong key, a relaxed or forgotten check ...), not an obvious wholesale deletion or a crash on every input;
 (c) each change is small (a few lines), and the three changes are different in kind and preferably touch different functions/tables/files.

For each change k in 1..3:
 1. Start from a clean tree (git -C @ROOT@/@PID@ checkout -- . ), make the edit, run the test suite as above and make sure it still shows 91 passed.
 2. Build a DEMONSTRATION that the property is broken: a minimal input (YAML and options, or for parser/utility-level properties a few lines of Python importing shroud from the worktree) on which the modified shroud produces wrong output / wrong behaviour with respect to the property, while the unmodified shroud behaves correctly. Run shroud like:  cd <some scratch dir under @ROOT@/out/@PID@/work> && PYTHONPATH=@ROOT@/@PID@ /venv/bin/python -c "import sys, shroud.main; sys.argv[0]='shroud'; shroud.main.main()" <file.yaml> --outdir-c-fortran out --outdir-python outpy --outdir-lua outlua ... (see @ROOT@/@PID@/docs and @ROOT@/@PID@/regression/input/*.yaml and regression/do-test.py for how it is invoked; there is no shroud/__main__.py; --help works). Where practical, show the difference in generated code (diff of outputs before/after) and explain why the changed output violates the property; if compilers are available (gcc, g++, gfortran - check) you may compile and run, but a clear diff of generated wrapper code with an explanation is enough.
 3. Save:  @ROOT@/out/@PID@/k.diff  (output of `git -C @ROOT@/@PID@ diff` - must apply cleanly to HEAD with `git apply`),  @ROOT@/out/@PID@/k.demo.md  (the input, exact commands, the before/after evidence, and 3-6 sentences explaining what specific input is needed and why the property is violated), and @ROOT@/out/@PID@/k.meta.json with keys {"property":"@PID@","title":<one line>,"files":[...],"functions_or_tables":[...],"kind":<e.g. wrong-variable|dropped-branch|table-entry|ordering|missing-reset|...>,"needs":<what input triggers it>,"tests_pass":true}.
 4. Reset the worktree (git -C @ROOT@/@PID@ checkout -- .) before the next change.

Finish by resetting the worktree to clean and removing @ROOT@/out/@PID@/work. Your final answer should list the three changes in one line each (file/function, what was changed, what input triggers it) and confirm that the tests passed for each. If, while building the demonstrations, you notice behaviour of the UNMODIFIED code that already violates the property, list it at the end (input and what goes wrong) - do not try to fix it. Do not commit anything anywhere.

Additional notes:
* Never use `git stash` (it is shared between worktrees and other people work concurrently). For the unmodified baseline use `git -C @ROOT@/@PID@ archive HEAD | tar -x -C <dir under your out/work>`.
* Earlier reviewers already proposed changes in the places listed below. Propose changes in DIFFERENT functions / table entries and of different kinds (for example: a condition made slightly too weak or too strong, an early return/continue added, a default value changed, a copy replaced by a reference, a key or attribute looked up on the wrong object, two statements swapped, a cache added, a loop bound changed, an `is None` test turned into a truthiness test, a helper call dropped, an option consulted at the wrong level, a format field set on the wrong scope, a statement-table entry inheriting from the wrong base, a typemap field copied from the neighbouring entry, a comparison operator turned around, a string method replaced by a near-equivalent one, a list extended where it should be replaced, an argument order swapped in a call), so that the set as a whole covers more of the code that this property depends on. Look also at less obvious places the property depends on (option templates in ast.py default_options, typemap.py entries and their create_* functions, util.py helpers, declast.py node methods, the less common statement groups such as struct / shadow / vector / void / function-pointer entries, the _cfi and _cdesc variants, wrap_struct / wrap_enum / wrap_typedef / wrap_variable paths, main.py option handling):
@AVOID@
'''


def main(argv):
    n = argv[0]
    props = [a.upper() for a in argv[1:]] or ["C%02d" % i for i in range(1, 19)]
    root = "/tmp/seed%s" % n
    os.makedirs(os.path.join(root, "out"), exist_ok=True)
    texts = {}
    with open(os.path.join(HERE, "properties.jsonl")) as fp:
        for line in fp:
            if line.strip():
                d = json.loads(line)
                texts[d["id"]] = d
    for pid in props:
        wt = os.path.join(root, pid)
        if not os.path.isdir(wt):
            subprocess.check_call(["git", "-C", "/repo", "worktree", "add", "--detach", "-q", wt, "HEAD"])
        os.makedirs(os.path.join(root, "out", pid), exist_ok=True)
        with open(os.path.join(root, "%s.property.json" % pid), "w") as fp:
            json.dump(texts[pid], fp, indent=1)
        avoid = []
        for m in sorted(glob.glob(os.path.join(HERE, "seeded", pid, "*", "meta.json"))):
            mm = json.load(open(m))
            avoid.append("- %s : %s" % (", ".join(mm.get("files", [])),
                                        ", ".join(map(str, mm.get("functions_or_tables", [])))[:140]))
        t = TASK.replace("@ROOT@", root).replace("@PID@", pid).replace("@AVOID@", "\n".join(avoid))
        with open(os.path.join(root, "%s.task.md" % pid), "w") as fp:
            fp.write(t)
        print(pid, "worktree", wt, "avoid entries", len(avoid))
    return 0


if __name__ == "__main__":
    sys.exit(main(sys.argv[1:]))
