#!/usr/bin/env python3
"""Development aid: write sa/attribution.json - which properties a function of shroud/ can break.

Two sources, both outside the checker's own judgement:
  * the anchors of /verif/properties.jsonl ("mechanism.where" names functions per file);
  * the seeded changes under /verif/seeded: each meta.json names the function(s) a demonstrated
    property-breaking change was made in.
General lints (sa/lints.py) that are not tied to one property report a finding under the properties
attributed to the function it is in (and, for call-site lints, the callee); a function without
attribution is counted as unmodelled, never alarmed.  Regenerate after a seeding round:
    python3 tools/mkattrib.py
"""
import glob
import json
import os
import re
import sys

HERE = os.path.dirname(os.path.dirname(os.path.abspath(__file__)))
sys.path.insert(0, HERE)
sys.dont_write_bytecode = True

from sa.loader import Repo  # noqa: E402

MODS = ("ast", "declast", "generate", "main", "statements", "todict", "typemap", "util", "whelpers",
        "wrapc", "wrapf", "wrapl", "wrapp", "splicer", "metaattrs", "visitor", "fcfmt")


def main():
    repo = Repo(os.environ.get("VERIF_REPO", "/repo"))
    funcs = {}
    for mn in MODS:
        try:
            m = repo.module(mn)
        except Exception:
            continue
        funcs[mn] = dict(m.functions())
    attr = {}

    def add(mn, q, pid, why):
        attr.setdefault("%s.%s" % (mn, q), {}).setdefault(pid, why)

    def resolve(mn, ident):
        """qualified names of module mn that the identifier (possibly Class.method or a bare name) denotes"""
        out = []
        for q in funcs.get(mn, {}):
            if q == ident or q.endswith("." + ident) or q.split(".")[-1] == ident.split(".")[-1] and "." not in ident:
                out.append(q)
        return out

    with open(os.path.join(HERE, "properties.jsonl")) as fp:
        props = [json.loads(l) for l in fp if l.strip()]
    for d in props:
        for mech in d["anchors"]["mechanism"]:
            for part in re.split(r";\s*", mech["where"]):
                mm = re.match(r"\s*shroud/(\w+)\.py\s*:?\s*(.*)", part)
                if not mm:
                    continue
                mn, rest = mm.group(1), mm.group(2)
                for ident in re.findall(r"[A-Za-z_][A-Za-z_0-9]*(?:\.[A-Za-z_][A-Za-z_0-9]*)?", rest):
                    for q in resolve(mn, ident):
                        add(mn, q, d["id"], "anchor")
    for mp in sorted(glob.glob(os.path.join(HERE, "seeded", "C??", "*", "meta.json"))):
        meta = json.load(open(mp))
        pid = mp.split(os.sep)[-3]
        if meta.get("why_missed"):
            continue
        text = " ".join(map(str, meta.get("functions_or_tables", [])))
        for f in meta.get("files", []):
            mn = os.path.basename(f)[:-3]
            for ident in re.findall(r"[A-Za-z_][A-Za-z_0-9]*(?:\.[A-Za-z_][A-Za-z_0-9]*)*", text):
                ident = re.sub(r"^(shroud\.)?%s\." % mn, "", ident)
                if len(ident) < 4:
                    continue
                for q in resolve(mn, ident):
                    add(mn, q, pid, "seeded %s" % "/".join(mp.split(os.sep)[-3:-1]))
    out = {k: sorted(v) for k, v in sorted(attr.items())}
    with open(os.path.join(HERE, "sa", "attribution.json"), "w") as fp:
        json.dump(out, fp, indent=0, sort_keys=True)
    print("functions with attribution:", len(out), "of", sum(len(v) for v in funcs.values()))
    return 0


if __name__ == "__main__":
    sys.exit(main())
