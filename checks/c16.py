"""C16 - documentation and debug options change comments only."""
import ast
import re

from sa import pyflow
from sa.consteval import Evaluator, is_unknown
from sa.loader import AnalysisError, enclosing_function, parent_chain, enclosing_class

EXPLANATION = (
    "Guard/effect analysis: every `if` whose test reads options.debug / debug_index / doxygen / "
    "literalinclude (per node) / show_splicer_comments (directly or through a local bound from such a "
    "read) is enumerated in the emitter modules; every statement in both branches is classified and "
    "must be comment-only: appends of strings whose constant prefix is a comment leader of that "
    "emitter (or empty), calls of methods that are themselves comment-only by the same rule, format "
    "fields / locals whose values begin with a comment leader or that are only used inside such "
    "regions, log writes.  (R2) no file write, file registration or helper registration under such a "
    "guard; (R3) config.write_version only flows into the header comment line.")
NOT_DECIDED = "Token-for-token equality of actual generated files after comment removal (needs running)."

OPTS = {"debug", "debug_index", "doxygen", "literalinclude", "show_splicer_comments"}
MODULES = ["wrapc", "wrapf", "wrapp", "wrapl", "util", "whelpers"]
LEADERS = {
    "wrapc": ("//", "/*", " *", "*/"), "wrapp": ("//", "/*", " *", "*/"), "wrapl": ("//", "/*", " *", "*/"),
    "wrapf": ("!",), "util": ("//",), "whelpers": ("//", "!", "/*"),
}
COMMENT_ATTRS = {"comment", "doxygen_begin", "doxygen_cont", "doxygen_end"}
COMMENT_NAMES = {"cstart", "cend", "fstart", "fend"}


def _reads_opt(expr, tainted):
    for n in ast.walk(expr):
        if isinstance(n, ast.Attribute) and n.attr in OPTS:
            d = pyflow.dotted(n) or ""
            if "options" in d.split("."):
                return n.attr
        if isinstance(n, ast.Name) and n.id in tainted:
            return n.id
    return None


def _tainted_locals(func):
    """Locals bound from an option read, or assigned constants under an option guard
    (flag variables like `literalinclude = True`)."""
    tainted = set()
    # a flag variable is only ever assigned bool constants or option reads
    eligible = {}
    for node in ast.walk(func):
        if isinstance(node, (ast.Assign, ast.AugAssign)):
            targets = node.targets if isinstance(node, ast.Assign) else [node.target]
            for t in targets:
                for tt in (t.elts if isinstance(t, (ast.Tuple, ast.List)) else [t]):
                    if isinstance(tt, ast.Name):
                        v = node.value
                        simple = isinstance(node, ast.Assign) and (
                            (isinstance(v, ast.Constant) and isinstance(v.value, bool)) or
                            (isinstance(v, (ast.Attribute, ast.Name, ast.BoolOp)) and _reads_opt(v, set())))
                        eligible[tt.id] = eligible.get(tt.id, True) and simple
        elif isinstance(node, (ast.For, ast.comprehension)):
            for tt in ast.walk(node.target):
                if isinstance(tt, ast.Name):
                    eligible[tt.id] = False
    for a in func.args.args:
        eligible[a.arg] = False
    changed = True
    while changed:
        changed = False
        for node in ast.walk(func):
            if isinstance(node, ast.Assign) and len(node.targets) == 1 and isinstance(node.targets[0], ast.Name):
                name = node.targets[0].id
                if name in tainted or not eligible.get(name, False):
                    continue
                if _reads_opt(node.value, tainted) and isinstance(node.value, (ast.Attribute, ast.Name, ast.BoolOp)):
                    tainted.add(name)
                    changed = True
                elif isinstance(node.value, ast.Constant) and isinstance(node.value.value, bool):
                    if any(_reads_opt(t, tainted) for t, pol in pyflow.dominating_tests(node, stop=func)):
                        tainted.add(name)
                        changed = True
    return tainted


def _doc_only_lists(func, tainted):
    """Local lists that only ever receive elements under a documentation-option guard:
    whether they are empty is an option read in disguise."""
    created = set()
    for node in ast.walk(func):
        if isinstance(node, ast.Assign) and len(node.targets) == 1 and isinstance(node.targets[0], ast.Name) \
                and isinstance(node.value, ast.List) and not node.value.elts:
            created.add(node.targets[0].id)
    out = set()
    for name in created:
        sites = []
        escapes = False
        for node in ast.walk(func):
            if isinstance(node, ast.Call):
                fn = pyflow.call_name(node) or ""
                last = fn.split(".")[-1]
                if isinstance(node.func, ast.Attribute) and pyflow.is_name(node.func.value, name) and \
                        last in ("append", "extend", "insert"):
                    sites.append(node)
                elif last in ("append_format", "document_stmts") and node.args and pyflow.is_name(node.args[0], name):
                    sites.append(node)
                elif any(pyflow.is_name(a, name) for a in node.args) and last not in ("extend", "len", "bool"):
                    escapes = True          # handed to something that may fill it
            elif isinstance(node, (ast.Assign, ast.AugAssign)):
                tg = node.targets if isinstance(node, ast.Assign) else [node.target]
                if any(pyflow.is_name(t, name) for t in tg) and not (
                        isinstance(node, ast.Assign) and isinstance(node.value, ast.List) and not node.value.elts):
                    escapes = True
        if not sites or escapes:
            continue
        if all(any(_reads_opt(t, tainted) for t, pol in pyflow.dominating_tests(n, stop=func)) for n in sites):
            out.add(name)
    return out


class Classifier(object):
    def __init__(self, repo, modname):
        self.repo = repo
        self.mod = repo.module(modname)
        self.modname = modname
        self.leaders = LEADERS[modname]
        self.ev = Evaluator(self.mod)
        self._comment_only_funcs = {}
        self._comment_lists = {}

    # -- text classification -------------------------------------------------
    def const_prefix(self, e):
        """('text', str) constant prefix; ('comment', None) when the prefix is a
        comment-leader attribute; ('unknown', None)."""
        if isinstance(e, ast.Constant) and isinstance(e.value, str):
            return ("text", e.value)
        if isinstance(e, ast.JoinedStr) and e.values:
            return self.const_prefix(e.values[0])
        if isinstance(e, ast.BinOp) and isinstance(e.op, ast.Add):
            k, v = self.const_prefix(e.left)
            if k == "text" and v == "":
                return self.const_prefix(e.right)
            return (k, v)
        if isinstance(e, ast.BinOp) and isinstance(e.op, ast.Mod):
            k, v = self.const_prefix(e.left)
            if k == "text" and v.startswith("%s"):
                args = e.right.elts if isinstance(e.right, ast.Tuple) else [e.right]
                if args:
                    return self.const_prefix(args[0])
            return (k, v)
        if isinstance(e, ast.Call) and isinstance(e.func, ast.Attribute) and e.func.attr == "format":
            k, v = self.const_prefix(e.func.value)
            if k == "text" and v.startswith("{}") and e.args:
                return self.const_prefix(e.args[0])
            if k == "text" and v.lstrip("\n").startswith("{}") and e.args:
                return self.const_prefix(e.args[0])
            return (k, v)
        if isinstance(e, ast.Attribute) and e.attr in COMMENT_ATTRS:
            return ("comment", None)
        if isinstance(e, ast.Attribute) and pyflow.is_name(e.value, "self"):
            return ("text", "<self.%s>" % e.attr)      # some other attribute: not a comment leader
        if isinstance(e, ast.Name) and e.id in COMMENT_NAMES:
            v = self.ev.eval(e)
            if isinstance(v, str):
                return ("text", str(v))
            return ("comment", None)
        if isinstance(e, ast.Call) and (pyflow.call_name(e) or "").split(".")[-1] == "wformat" and e.args:
            return self.const_prefix(e.args[0])
        return ("unknown", None)

    def is_comment_text(self, e):
        k, v = self.const_prefix(e)
        if k == "comment":
            return True
        if k == "text":
            s = v.lstrip("\n")
            if s == "" and v == "":
                return isinstance(e, ast.Constant)      # blank line
            if s.startswith("{lstart}") or s.startswith("{lend}"):
                return True
            return any(s.startswith(l) for l in self.leaders) or (not self.leaders and s == "")
        return None      # unknown

    # -- effects --------------------------------------------------------------
    def classify_stmt(self, st, func, tainted, region_nodes):
        """Return list of (verdict, message): verdict ok|bad|unknown."""
        out = []
        if isinstance(st, ast.If):
            for s in st.body + st.orelse:
                out.extend(self.classify_stmt(s, func, tainted, region_nodes))
            return out
        if isinstance(st, (ast.For, ast.While)):
            for s in st.body + st.orelse:
                out.extend(self.classify_stmt(s, func, tainted, region_nodes))
            return out
        if isinstance(st, ast.Pass):
            return [("ok", "control")]
        if isinstance(st, (ast.Break, ast.Continue)):
            # leaving a loop (iteration) early under a documentation option is harmless only when
            # everything the loop does is itself comment-only
            loop = next((a for a in parent_chain(st) if isinstance(a, (ast.For, ast.While))), None)
            if loop is None or id(loop) in region_nodes or _inside(loop, region_nodes):
                return [("ok", "control inside a guarded loop")]
            res = []
            for s2 in loop.body + loop.orelse:
                if id(s2) in region_nodes:
                    continue
                if any(n is st for n in ast.walk(s2)):
                    # the statement holding the guard: classify its other parts
                    if isinstance(s2, ast.If) and id(s2) not in region_nodes:
                        for s3 in s2.body + s2.orelse:
                            if not any(n is st for n in ast.walk(s3)):
                                res.extend(self.classify_stmt(s3, func, tainted, region_nodes))
                    continue
                res.extend(self.classify_stmt(s2, func, tainted, region_nodes))
            bad = [m for v, m in res if v == "bad"]
            if bad:
                return [("bad", "%s under the option guard skips work of the enclosing loop that is not "
                                "comment-only (%s)" % (type(st).__name__.lower(), bad[0]))]
            return [("ok", "control; enclosing loop is comment-only")]
        if isinstance(st, ast.Expr) and isinstance(st.value, ast.Call):
            return [self.classify_call(st.value, func, tainted)]
        if isinstance(st, ast.Assign):
            for t in st.targets:
                if isinstance(t, ast.Name):
                    if t.id in tainted:
                        out.append(("ok", "flag variable %s" % t.id))
                        continue
                    # local: every load of it must lie inside an option-guarded region
                    loads = [n for n in ast.walk(func) if isinstance(n, ast.Name) and n.id == t.id
                             and isinstance(n.ctx, ast.Load)]
                    outside = [n for n in loads if not _inside(n, region_nodes)]
                    if outside:
                        # allowed when the value itself is comment text (e.g. lstart = "// start ...")
                        if self.is_comment_text(st.value):
                            out.append(("ok", "local %s holds comment text" % t.id))
                        else:
                            out.append(("bad", "local %s assigned under the option guard is used outside "
                                               "guarded regions (line %d)" % (t.id, outside[0].lineno)))
                    else:
                        out.append(("ok", "local %s only used under option guards" % t.id))
                elif isinstance(t, ast.Attribute):
                    v = self.is_comment_text(st.value)
                    if v:
                        out.append(("ok", "format field %s holds comment text" % t.attr))
                    elif v is None:
                        # where does the field end up?  if some template that uses {field} is not a comment, the
                        # option changes code
                        uses = [x.value for x in ast.walk(self.mod.tree) if isinstance(x, ast.Constant)
                                and isinstance(x.value, str) and ("{%s}" % t.attr) in x.value]
                        code_use = [u for u in uses for line in u.split("\n") if ("{%s}" % t.attr) in line
                                    and not any(line.lstrip("+-@^\t ").startswith(l) for l in self.leaders)]
                        if code_use:
                            out.append(("bad", "format field %s is set under the option guard and is used in a non-comment "
                                               "template (%r)" % (t.attr, code_use[0].strip()[:50])))
                        else:
                            out.append(("unknown", "attribute %s assigned a value the classifier cannot "
                                                   "resolve" % (pyflow.dotted(t) or t.attr)))
                    else:
                        out.append(("bad", "attribute %s assigned non-comment text %r under the option guard"
                                    % (pyflow.dotted(t) or t.attr, self.mod.seg(st.value)[:60])))
                elif isinstance(t, ast.Subscript):
                    out.append(("bad", "container store %s under the option guard" % self.mod.seg(t)))
            return out
        if isinstance(st, ast.AugAssign):
            return [("bad", "augmented assignment %s under the option guard" % self.mod.seg(st))]
        if isinstance(st, (ast.Return, ast.Raise)):
            return [("bad", "%s under the option guard changes control flow of the emitter"
                     % type(st).__name__.lower())]
        return [("unknown", "statement kind %s" % type(st).__name__)]

    def classify_call(self, call, func, tainted):
        fn = pyflow.call_name(call) or ""
        last = fn.split(".")[-1]
        if last in ("append", "extend", "insert") and isinstance(call.func, ast.Attribute):
            arg = call.args[-1] if call.args else None
            if arg is None:
                return ("unknown", "append without argument")
            if last == "extend":
                if isinstance(arg, (ast.List, ast.Tuple)):
                    vs = [self.is_comment_text(e) for e in arg.elts]
                    if all(vs):
                        return ("ok", "extends with comment lines")
                    if any(v is False for v in vs):
                        return ("bad", "extends output with non-comment text %r" % self.mod.seg(arg)[:60])
                    return ("unknown", "extend with unresolved text")
                if isinstance(arg, ast.Name):
                    v = self.is_comment_list(arg.id, func)
                    if v:
                        return ("ok", "extends with comment list %s" % arg.id)
                    if v is False:
                        return ("bad", "extends output with list %s that receives non-comment text" % arg.id)
                return ("unknown", "extend with unresolved list")
            if isinstance(arg, ast.Constant) and isinstance(arg.value, int):
                return ("bad", "indentation directive appended under the option guard")
            v = self.is_comment_text(arg)
            if v:
                return ("ok", "appends comment %r" % self.mod.seg(arg)[:50])
            if v is False:
                return ("bad", "appends non-comment text %r to generated output" % self.mod.seg(arg)[:60])
            return ("unknown", "append of unresolved text %r" % self.mod.seg(arg)[:50])
        if last == "append_format" and len(call.args) >= 2:
            v = self.is_comment_text(call.args[1])
            if v:
                return ("ok", "appends formatted comment")
            if v is False:
                return ("bad", "appends non-comment template %r" % self.mod.seg(call.args[1])[:60])
            return ("unknown", "append_format of unresolved template")
        if last in ("print",) or fn.endswith("log.write"):
            return ("ok", "log/print")
        if last == "_create_splicer":
            return ("bad", "a named block (user splicer code and its default) is only emitted when the option is on")
        if fn.startswith("self.") and fn.count(".") == 1:
            v = self.comment_only_method(last, func)
            if v:
                return ("ok", "calls comment-only method %s" % last)
            if v is False:
                return ("bad", "calls %s which has non-comment effects" % last)
        return ("unknown", "call %s" % fn)

    def is_comment_list(self, name, func):
        """All appends into local list `name` inside func add comment text."""
        verdicts = []
        # lists filled through update_code_blocks(locals(), stmts, fmt): symtab[clause + "_code"] receives the
        # clause lines of the statement tables, i.e. generated code
        if name.endswith("_code") and any(isinstance(c, ast.Call) and (pyflow.call_name(c) or "").endswith("update_code_blocks")
                                          and c.args and isinstance(c.args[0], ast.Call) and pyflow.is_name(c.args[0].func, "locals")
                                          for c in ast.walk(func)):
            try:
                ucb = self.mod.func("update_code_blocks")
            except Exception:
                ucb = None
            if ucb is not None:
                clauses = set(pyflow.const_str(e) for l in ast.walk(ucb) if isinstance(l, ast.List) for e in l.elts)
                if name[:-5] in clauses:
                    return False
        for node in ast.walk(func):
            if isinstance(node, ast.Call) and isinstance(node.func, ast.Attribute) and \
                    pyflow.is_name(node.func.value, name) and node.func.attr in ("append", "extend"):
                if node.args:
                    verdicts.append(self.is_comment_text(node.args[0]))
            if isinstance(node, ast.Call) and (pyflow.call_name(node) or "").endswith("document_stmts") and \
                    node.args and pyflow.is_name(node.args[0], name):
                verdicts.append(True)
        if not verdicts:
            # a parameter: look at what the callers in this module pass
            params = [a.arg for a in func.args.args]
            if name in params:
                idx = params.index(name)
                off = 1 if params and params[0] == "self" else 0
                for q, caller in self.mod.functions().items():
                    if caller is func:
                        continue
                    for call in ast.walk(caller):
                        if isinstance(call, ast.Call) and (pyflow.call_name(call) or "").split(".")[-1] == func.name:
                            arg = None
                            if idx - off < len(call.args):
                                arg = call.args[idx - off]
                            for k in call.keywords:
                                if k.arg == name:
                                    arg = k.value
                            if isinstance(arg, ast.Name):
                                verdicts.append(self.is_comment_list(arg.id, caller))
                            elif arg is not None:
                                verdicts.append(None)
        if not verdicts:
            return None
        if any(v is False for v in verdicts):
            return False
        if all(verdicts):
            return True
        return None

    def comment_only_method(self, name, ctx_func):
        key = name
        if key in self._comment_only_funcs:
            return self._comment_only_funcs[key]
        self._comment_only_funcs[key] = None
        target = None
        for modname in (self.modname, "util"):
            m = self.repo.module(modname)
            for q, f in m.functions().items():
                if q.split(".")[-1] == name and "." in q:
                    target = (modname, f)
                    break
            if target:
                break
        if target is None:
            return None
        cl = self if target[0] == self.modname else Classifier(self.repo, target[0])
        if target[0] != self.modname:
            cl.leaders = self.leaders
        f = target[1]
        verdict = True
        params = [a.arg for a in f.args.args]
        for node in ast.walk(f):
            if isinstance(node, ast.Call):
                v, msg = cl.classify_call(node, f, set())
                fnm = pyflow.call_name(node) or ""
                if fnm.split(".")[-1] in ("append", "extend", "append_format", "insert"):
                    recv = pyflow.dotted(node.func.value) if isinstance(node.func, ast.Attribute) else None
                    if fnm.split(".")[-1] == "append_format":
                        recv = pyflow.dotted(node.args[0])
                    local_list = recv and "." not in recv and recv not in params
                    if local_list:
                        continue        # builds a local helper list
                    if v == "bad":
                        verdict = False
                    elif v == "unknown" and verdict:
                        verdict = None
            elif isinstance(node, (ast.Assign, ast.AugAssign)):
                targets = node.targets if isinstance(node, ast.Assign) else [node.target]
                for t in targets:
                    if isinstance(t, (ast.Attribute, ast.Subscript)):
                        verdict = False
        self._comment_only_funcs[key] = verdict
        return verdict


def _inside(node, region_nodes):
    for p in parent_chain(node):
        if id(p) in region_nodes:
            return True
    return id(node) in region_nodes


FORBIDDEN_UNDER_GUARD = ("write_output_file", "add_c_helper", "add_f_helper", "add_helper",
                         "add_capsule_code", "add_destructor")



def rule_r10(repo, run):
    R = run.rule("C16.R10", "a list that receives splicer marker comments (`! splicer begin ...`, written only when "
                            "show_splicer_comments is on) is never *tested*: whether a token is written must not depend on whether "
                            "the list is empty")
    n = 0
    for mn in ("wrapf", "wrapc", "wrapp", "wrapl"):
        m = repo.module(mn)
        tainted = set()
        for c in ast.walk(m.tree):
            if isinstance(c, ast.Call) and (pyflow.call_name(c) or "").endswith("._create_splicer") and len(c.args) >= 2 \
                    and isinstance(c.args[1], ast.Attribute):
                tainted.add(c.args[1].attr)
        if not tainted:
            continue
        for q, fn in sorted(m.functions().items()):
            # locals computed from a tainted list
            local = set()
            for a in ast.walk(fn):
                if isinstance(a, ast.Assign) and len(a.targets) == 1 and isinstance(a.targets[0], ast.Name) \
                        and any(isinstance(x, ast.Attribute) and x.attr in tainted and isinstance(x.ctx, ast.Load) for x in ast.walk(a.value)) \
                        and not isinstance(a.value, ast.Attribute):
                    local.add(a.targets[0].id)
            for i in ast.walk(fn):
                if not isinstance(i, (ast.If, ast.IfExp)):
                    continue
                reads = [x for x in ast.walk(i.test) if (isinstance(x, ast.Attribute) and x.attr in tainted and isinstance(x.value, ast.Name)
                                                         and x.value.id in ("self", "fileinfo"))
                         or (isinstance(x, ast.Name) and x.id in local)]
                if not reads:
                    continue
                n += 1
                body = i.body if isinstance(i, ast.If) else [i.body]
                tokens = [c_ for st in body for c_ in ast.walk(st) if isinstance(c_, ast.Constant) and isinstance(c_.value, str)
                          and c_.value.strip() and not c_.value.lstrip("+-@^ ").startswith(("!", "//", "/*", "#", "--"))
                          and isinstance(getattr(c_, "_parent", None), ast.Call)
                          and (pyflow.call_name(c_._parent) or "").split(".")[-1] in ("append", "append_format", "extend")]
                run.check(R, "%s.%s:test-of-%s" % (mn, q, ast.unparse(reads[0])), not tokens,
                          "`%s` tests a list that holds the splicer marker comments when show_splicer_comments is on, and `%s` is "
                          "written under it: the token appears or disappears with a comment-only option"
                          % (ast.unparse(i.test)[:60], tokens[0].value if tokens else ""), m.loc(i))
    run.ok(R, "splicer-comment lists", sample=dict(tests=n))


def rule_r11(repo, run):
    R = run.rule("C16.R11", "text of the input file that is written inside a block comment cannot end the block: the writer of "
                            "documentation lines takes the closer of the language's block comment out of the text")
    um = repo.module("util")
    fn = um.func("WrapperMixin.write_doxygen_lines")
    # languages whose doxygen block is closed by a token that can occur in text
    closers = set()
    for mn in ("wrapc", "wrapf", "wrapp", "wrapl"):
        m = repo.module(mn)
        for a in ast.walk(m.tree):
            if isinstance(a, ast.Assign) and isinstance(a.targets[0], ast.Attribute) and a.targets[0].attr == "doxygen_end" \
                    and pyflow.const_str(a.value):
                closers.add(pyflow.const_str(a.value).strip())
    block = sorted(c for c in closers if c in ("*/",))
    if not block:
        raise AnalysisError("C16.R11: no wrapper closes its documentation block with */ any more")
    reps = [c for c in ast.walk(fn) if isinstance(c, ast.Call) and isinstance(c.func, ast.Attribute) and c.func.attr == "replace"
            and c.args and pyflow.const_str(c.args[0]) == "*/" and len(c.args) > 1 and "*/" not in (pyflow.const_str(c.args[1]) or "*/")]
    run.check(R, "util.WrapperMixin.write_doxygen_lines:comment-closer", bool(reps),
              "the lines of `brief:` / `description:` are written between `/**` and `*/` unchanged: a `*/` in the text ends the "
              "comment and the rest of the line is compiled - only when doxygen is on", um.loc(fn))


def run(repo, run, tier):
    R1 = run.rule("C16.R1", "both branches of every debug/doxygen/literalinclude/show_splicer_comments guard "
                            "have comment-only effects")
    R2 = run.rule("C16.R2", "no file write, file registration or helper registration under such a guard")
    R3 = run.rule("C16.R3", "write_version flows only into the comment header line")
    regions = 0
    unknown = 0
    for modname in MODULES:
        mod = repo.module(modname)
        cl = Classifier(repo, modname)
        for q, func in mod.functions().items():
            tainted = _tainted_locals(func)
            doclists = _doc_only_lists(func, tainted)
            guards = []
            for node in ast.walk(func):
                if isinstance(node, ast.If) and enclosing_function(node) is func:
                    opt = _reads_opt(node.test, tainted | doclists)
                    if opt:
                        guards.append((node, opt))
            if not guards:
                continue
            region_nodes = set(id(g) for g, o in guards)
            for g, opt in guards:
                # skip nested guard already covered by an outer guard region (still counted)
                regions += 1
                construct = "%s.%s:if %s" % (modname, q, _norm(mod.seg(g.test)))
                # literalinclude2 (library level) is excluded by the property statement
                if "literalinclude2" in mod.seg(g.test) and not any(
                        isinstance(x_, ast.Attribute) and x_.attr in OPTS and "options" in (pyflow.dotted(x_) or "").split(".")
                        for x_ in ast.walk(g.test)):
                    continue
                results = []
                for st in g.body + g.orelse:
                    if isinstance(st, ast.If) and any(st is gg for gg, o in guards):
                        continue      # nested guard: classified on its own
                    results.extend(cl.classify_stmt(st, func, tainted, region_nodes))
                bad = [m for v, m in results if v == "bad"]
                unk = [m for v, m in results if v == "unknown"]
                for u in unk:
                    unknown += 1
                    run.unmodelled_site(R1, "%s (%s)" % (construct, mod.loc(g)), u)
                run.check(R1, construct + "@%s" % _ctxkey(mod, g), not bad,
                          "option %s changes more than comments: %s" % (opt, "; ".join(bad)), mod.loc(g),
                          sample=dict(guard=mod.seg(g.test), effects=[m for v, m in results][:6]))
                # R2
                for st in g.body + g.orelse:
                    for call in pyflow.calls_in(st):
                        fn = (pyflow.call_name(call) or "")
                        last = fn.split(".")[-1]
                        hit = last in FORBIDDEN_UNDER_GUARD or \
                            any(fn.endswith(x) for x in ("cfiles.append", "ffiles.append", "pyfiles.append"))
                        run.check(R2, construct + ":" + fn + "@%d" % regions, not hit,
                                  "%s is called under the %s guard: the set of files/helpers depends on a "
                                  "documentation option" % (fn, opt), mod.loc(call))
                    for sub in ast.walk(st):
                        if isinstance(sub, ast.Assign):
                            for t in sub.targets:
                                if isinstance(t, ast.Subscript) and (pyflow.dotted(t.value) or "").endswith("c_helper"):
                                    run.fail(R2, construct + ":c_helper[]", "helper registered under the %s guard" % opt,
                                             mod.loc(sub))
    run.floor(R1, "option-guarded regions", regions, 55)
    run.notes.append("unclassified effects (reported, never alarmed): %d" % unknown)

    # tainted locals must not flow anywhere except tests
    for modname in MODULES:
        mod = repo.module(modname)
        for q, func in mod.functions().items():
            tainted = _tainted_locals(func)
            for node in ast.walk(func):
                if isinstance(node, ast.Name) and node.id in tainted and isinstance(node.ctx, ast.Load):
                    p = node._parent
                    ok = False
                    for anc in parent_chain(node):
                        if isinstance(anc, (ast.If, ast.While, ast.IfExp)) and _in_test(node, anc.test):
                            ok = True
                            break
                        if isinstance(anc, ast.Assign) and len(anc.targets) == 1 and \
                                isinstance(anc.targets[0], ast.Name) and anc.targets[0].id in tainted:
                            ok = True
                            break
                        if isinstance(anc, ast.stmt):
                            break
                    run.check(R1, "%s.%s:use of option flag %s@%d" % (modname, q, node.id, _rel(node, func)), ok,
                              "value derived from a documentation option flows into %r (not a test)"
                              % mod.seg(p)[:60], mod.loc(node))

    # option attribute reads outside tests (e.g. passed as argument, used in arithmetic)
    for modname in MODULES:
        mod = repo.module(modname)
        for node in ast.walk(mod.tree):
            if isinstance(node, ast.Attribute) and node.attr in OPTS and isinstance(node.ctx, ast.Load):
                d = pyflow.dotted(node) or ""
                if "options" not in d.split("."):
                    continue
                func = enclosing_function(node)
                ok = False
                for anc in parent_chain(node):
                    if isinstance(anc, (ast.If, ast.While, ast.IfExp)) and _in_test(node, anc.test):
                        ok = True
                        break
                    if isinstance(anc, ast.Assign) and len(anc.targets) == 1 and isinstance(anc.targets[0], ast.Name):
                        ok = True     # becomes a tainted local, handled above
                        break
                    if isinstance(anc, ast.stmt):
                        break
                q = getattr(func, "_qualname", "<module>")
                run.check(R1, "%s.%s:read %s@%d" % (modname, q, d, _rel(node, func) if func else node.lineno), ok,
                          "documentation option %s is used as a value (%r), not only as a guard"
                          % (d, mod.seg(node._parent)[:60]), mod.loc(node))

    # R3 write_version
    n3 = 0
    for m in repo.modules():
        for node in ast.walk(m.tree):
            if isinstance(node, ast.Attribute) and node.attr == "write_version" and isinstance(node.ctx, ast.Load):
                d = pyflow.dotted(node) or ""
                func = enclosing_function(node)
                q = getattr(func, "_qualname", "<module>")
                n3 += 1
                if d.startswith("args."):
                    # the argparse value: may only be tested
                    ok = any(isinstance(a, ast.If) and _in_test(node, a.test) for a in parent_chain(node))
                    run.check(R3, "%s.%s:%s" % (m.name, q, d), ok,
                              "args.write_version is used other than as a test", m.loc(node))
                    continue
                # config.write_version: must be an argument of a format whose text starts with the comment leader
                ok = False
                for anc in parent_chain(node):
                    if isinstance(anc, ast.Call) and isinstance(anc.func, ast.Attribute) and anc.func.attr == "format":
                        base = anc.func.value
                        s = pyflow.const_str(base)
                        if s is None and isinstance(base, ast.Constant):
                            s = base.value
                        if s is not None and s.startswith("{}") and anc.args and \
                                isinstance(anc.args[0], ast.Attribute) and anc.args[0].attr == "comment":
                            ok = True
                        elif s is not None and m.name == "main":
                            ok = True       # JSON debug dump notice (not a generated source)
                        break
                    if isinstance(anc, ast.stmt):
                        break
                run.check(R3, "%s.%s:%s" % (m.name, q, d), ok,
                          "config.write_version is used outside the `<comment> This file is generated by "
                          "Shroud <version>` header line", m.loc(node),
                          sample=dict(where="%s.%s" % (m.name, q)))
    run.floor(R3, "write_version reads", n3, 3)
    # literalinclude markers: the start and end markers of one region use the comment leader of the same language
    wh = repo.module("whelpers")
    npairs = 0
    for q, fn in sorted(wh.functions().items()):
        for node in ast.walk(fn):
            if not isinstance(node, ast.If):
                continue
            marks = {}
            for a in node.body:
                if isinstance(a, ast.Assign) and isinstance(a.targets[0], ast.Name) and a.targets[0].id in ("lstart", "lend"):
                    names = [x.id for x in ast.walk(a.value) if isinstance(x, ast.Name) and x.id in COMMENT_NAMES]
                    marks[a.targets[0].id] = names
            if "lstart" in marks and "lend" in marks:
                npairs += 1
                langs = set(nm[0] for nm in marks["lstart"] + marks["lend"])
                kinds = (marks["lstart"][:1] == [list(langs)[0] + "start"] if len(langs) == 1 else False) and \
                    (marks["lend"][:1] == [list(langs)[0] + "end"] if len(langs) == 1 else False)
                run.check(R1, "whelpers.%s:markers@%d" % (q, node.lineno - fn.lineno), len(langs) == 1 and kinds,
                          "the region markers use %s / %s: a marker written with the other language's comment leader is a "
                          "syntax error in the generated file when literalinclude is on" % (marks["lstart"], marks["lend"]),
                          wh.loc(node))
    run.floor(R1, "marker pairs in helper builders", npairs, 1)
    # multi-line documentation text: every physical line carries the comment leader
    um = repo.module("util")
    wd = um.func("WrapperMixin.write_doxygen")
    keys = sorted(set(pyflow.const_str(x.slice) for x in ast.walk(wd) if isinstance(x, ast.Subscript)
                      and pyflow.is_name(x.value, "docs") and pyflow.const_str(x.slice)))
    if "description" not in keys or len(keys) < 3:
        raise AnalysisError("C16.R1: documentation keys of write_doxygen not found (%s)" % keys)

    def whole_text_appends(fn, is_source, depth=0):
        """appends in fn whose argument contains the unsplit text (`is_source(expr)` says which expressions are the text)"""
        whole = set()
        changed = True
        while changed:
            changed = False
            for a in ast.walk(fn):
                if isinstance(a, ast.Assign) and isinstance(a.targets[0], ast.Name) and a.targets[0].id not in whole:
                    src = str(um.seg(a.value))
                    mentions = any(is_source(x) for x in ast.walk(a.value)) or \
                        any(isinstance(x, ast.Name) and x.id in whole for x in ast.walk(a.value))
                    if mentions and ".split(" not in src and ".splitlines(" not in src and not isinstance(a.value, (ast.List, ast.Tuple)):
                        whole.add(a.targets[0].id)
                        changed = True
        # a list display holding the unsplit text (`lines = [desc]`) has the whole text as its element: the loop
        # variable of an iteration over it is the whole text again
        holders = set()
        for a in ast.walk(fn):
            if isinstance(a, ast.Assign) and isinstance(a.targets[0], ast.Name) and isinstance(a.value, (ast.List, ast.Tuple)) \
                    and any((isinstance(e, ast.Name) and e.id in whole) or is_source(e) for e in a.value.elts):
                holders.add(a.targets[0].id)
        for l in ast.walk(fn):
            if isinstance(l, ast.For) and isinstance(l.iter, ast.Name) and l.iter.id in holders and isinstance(l.target, ast.Name):
                whole.add(l.target.id)
        bad = []
        for c in ast.walk(fn):
            if not isinstance(c, ast.Call):
                continue
            if isinstance(c.func, ast.Attribute) and c.func.attr in ("append", "extend") and c.args:
                arg = c.args[0]
                if any(is_source(x) or (isinstance(x, ast.Name) and x.id in whole) for x in ast.walk(arg)):
                    bad.append(str(um.seg(c)))
            elif isinstance(c.func, ast.Attribute) and pyflow.is_name(c.func.value, "self") and depth < 2 and \
                    um.has_func("WrapperMixin.%s" % c.func.attr):
                callee = um.func("WrapperMixin.%s" % c.func.attr)
                ps = [a.arg for a in callee.args.args][1:]
                for k, a in enumerate(c.args):
                    if k < len(ps) and (is_source(a) or (isinstance(a, ast.Name) and a.id in whole)):
                        pname = ps[k]
                        bad += whole_text_appends(callee, lambda x, pname=pname: isinstance(x, ast.Name) and x.id == pname
                                                  and isinstance(x.ctx, ast.Load), depth + 1)
        return bad
    # documentation lines carry no break hint: write_continue continues a line at a \t with the continuation of
    # *code* (`&` in Fortran), the rest of the sentence would follow without the comment leader
    for q, fn in sorted(um.functions().items()):
        if "doxygen" not in q:
            continue
        hints = [c for c in ast.walk(fn) if isinstance(c, ast.Constant) and isinstance(c.value, str) and "\t" in c.value]
        run.check(R1, "util.%s:no-break-hints" % q, not hints,
                  "%s puts a \\t break hint into a documentation line (%s): a line longer than the line length is continued "
                  "as code and the remainder of the text becomes a statement of the generated file"
                  % (q, ast.unparse(hints[0]._parent)[:60] if hints else ""), um.loc(hints[0]) if hints else um.loc(fn))
    # ... and a tab that the user wrote into the text is a break hint as well: the text is freed of tabs before it is split
    wl_ = um.func("WrapperMixin.write_doxygen_lines") if um.has_func("WrapperMixin.write_doxygen_lines") else wd
    splits = [c for c in ast.walk(wl_) if isinstance(c, ast.Call) and isinstance(c.func, ast.Attribute) and c.func.attr in ("split", "splitlines")]
    if not splits:
        raise AnalysisError("C16.R1: the place where documentation text is split into lines was not found")
    for c in splits:
        src = ast.unparse(c.func.value)
        run.check(R1, "util.%s:tabs-of-text" % wl_.name, "expandtabs" in src or "replace('\\t'" in src,
                  "the documentation text is split into lines as it is (`%s`): a tab in a line longer than the line length makes "
                  "write_continue continue the comment as code (`!! ... &` and a line without the leader)" % ast.unparse(c), um.loc(c))
    for k in keys:
        def is_doc(x, k=k):
            return isinstance(x, ast.Subscript) and pyflow.is_name(x.value, "docs") and pyflow.const_str(x.slice) == k \
                and isinstance(x.ctx, ast.Load)
        bad = whole_text_appends(wd, is_doc)
        run.check(R1, "util.WrapperMixin.write_doxygen:%s-lines" % k, not bad,
                  "the %s text (a YAML block scalar can hold several lines) is emitted as one string (%s): only its first line "
                  "gets the comment leader, the following lines become statements of the generated file" % (k, bad[:1]), um.loc(wd))
    # a list that receives lines under a documentation option is not edited by position afterwards: `out[-1] = out[-1][:-1]`
    # (drop the comma of the last enumerator) edits the comment instead when the option is on
    npos = 0
    for modname in MODULES:
        mod = repo.module(modname)
        for q, func in mod.functions().items():
            tainted = _tainted_locals(func)
            guarded = {}
            for c in ast.walk(func):
                if not isinstance(c, ast.Call):
                    continue
                last = (pyflow.call_name(c) or "").split(".")[-1]
                tgt = None
                if isinstance(c.func, ast.Attribute) and isinstance(c.func.value, ast.Name) and last in ("append", "extend", "insert"):
                    tgt = c.func.value.id
                elif last == "append_format" and c.args and isinstance(c.args[0], ast.Name):
                    tgt = c.args[0].id
                if tgt and any(_reads_opt(t, tainted) for t, pol in pyflow.dominating_tests(c, stop=func)):
                    guarded.setdefault(tgt, []).append(c)
            for name, adds in sorted(guarded.items()):
                for e in ast.walk(func):
                    pos = None
                    if isinstance(e, ast.Assign) and isinstance(e.targets[0], ast.Subscript) and pyflow.is_name(e.targets[0].value, name) \
                            and isinstance(e.targets[0].slice, (ast.UnaryOp, ast.Constant)):
                        pos = e
                    elif isinstance(e, ast.Call) and isinstance(e.func, ast.Attribute) and e.func.attr == "pop" and pyflow.is_name(e.func.value, name):
                        pos = e
                    if pos is None or any(_reads_opt(t, tainted) for t, pol in pyflow.dominating_tests(pos, stop=func)):
                        continue
                    npos += 1
                    earlier = [c for c in adds if c.lineno < pos.lineno]
                    run.check(R1, "%s.%s:%s:positional-edit" % (modname, q, name), not earlier,
                              "`%s` edits the last element of `%s`, and `%s` adds a line to that list only when a documentation / debug "
                              "option is on: with the option the edit hits the comment (the last enumerator keeps its comma, "
                              "the comment loses a character)" % (re.sub(r"\s+", " ", ast.unparse(pos))[:50], name,
                                                                  re.sub(r"\s+", " ", ast.unparse(earlier[0]))[:50] if earlier else ""),
                              mod.loc(pos))
    # an output list that so far holds only documentation: its length / emptiness is an option read in disguise
    nl = 0
    for modname in MODULES:
        mod = repo.module(modname)
        for q, func in mod.functions().items():
            tainted = _tainted_locals(func)
            lists = [a.targets[0].id for a in ast.walk(func) if isinstance(a, ast.Assign) and len(a.targets) == 1
                     and isinstance(a.targets[0], ast.Name) and isinstance(a.value, ast.List) and not a.value.elts
                     and enclosing_function(a) is func]
            for name in sorted(set(lists)):
                fills = []
                for c in ast.walk(func):
                    if not isinstance(c, ast.Call):
                        continue
                    last = (pyflow.call_name(c) or "").split(".")[-1]
                    if isinstance(c.func, ast.Attribute) and pyflow.is_name(c.func.value, name) and last in ("append", "extend", "insert"):
                        pass
                    elif any(pyflow.is_name(a_, name) for a_ in c.args) and last not in ("len", "bool", "extend", "join", "sorted"):
                        pass
                    else:
                        continue
                    conds = pyflow.dominating_tests(c, stop=func)
                    if any(_reads_opt(t, tainted) for t, pol in conds) or last == "_create_splicer":
                        kind = "doc"        # adds lines only / also when a documentation option is on (block markers)
                    elif last in ("append", "insert") and not conds and not any(
                            isinstance(p_, (ast.For, ast.While)) for p_ in parent_chain(c) if p_ is not func):
                        kind = "sure"       # always adds an element
                    else:
                        kind = "maybe"
                    fills.append((c.lineno, kind))
                if not fills:
                    continue
                for r in ast.walk(func):
                    sized = None
                    if isinstance(r, ast.Call) and pyflow.is_name(r.func, "len") and r.args and pyflow.is_name(r.args[0], name):
                        sized = r
                    elif isinstance(r, (ast.If, ast.While, ast.IfExp)) and (pyflow.is_name(r.test, name) or (
                            isinstance(r.test, ast.UnaryOp) and pyflow.is_name(r.test.operand, name))):
                        sized = r.test
                    if sized is None:
                        continue
                    if any(_reads_opt(t, tainted) for t, pol in pyflow.dominating_tests(sized, stop=func)):
                        continue
                    before = [d for ln, d in fills if ln < sized.lineno]
                    later_loop = any(isinstance(p_, (ast.For, ast.While)) for p_ in parent_chain(sized) if p_ is not func)
                    if not before or later_loop:
                        continue
                    nl += 1
                    # whether the list is empty depends on the option when a documentation-dependent fill precedes the read
                    # and nothing that precedes it is certain to have added an element
                    run.check(R1, "%s.%s:len(%s)@%d" % (modname, q, name, len(before)), not ("doc" in before and "sure" not in before),
                              "`%s` reads the size of `%s`, which up to that point has been filled by documentation-dependent code "
                              "(a guarded append, or block markers of _create_splicer) and by nothing that surely adds an element: "
                              "the value (and what it decides - whether a file is written, a block emitted) differs between the "
                              "option on and off" % (" ".join(str(mod.seg(sized)).split())[:40], name), mod.loc(sized))
    run.floor(R1, "size reads of partly filled output lists", nl, 3)
    # a one-line comment is made of one-line text: the `decl:` string of the YAML file may be a block scalar, so a comment
    # shows the declaration as re-generated from the parsed form (gen_decl), never the raw text
    nc = 0
    for modname in MODULES:
        mod = repo.module(modname)
        cl = Classifier(repo, modname)
        for q, func in mod.functions().items():
            for c in ast.walk(func):
                if not (isinstance(c, ast.Call) and isinstance(c.func, ast.Attribute) and c.func.attr in ("append", "insert") and c.args):
                    continue
                arg = c.args[-1]
                if not (isinstance(arg, ast.BinOp) and isinstance(arg.op, ast.Add)):
                    continue
                kind, text = cl.const_prefix(arg)
                if not (kind == "comment" or (kind == "text" and text and text.lstrip().startswith(tuple(cl.leaders)))):
                    continue
                nc += 1
                raw = [x for x in ast.walk(arg) if isinstance(x, ast.Attribute) and x.attr == "decl"
                       and not isinstance(getattr(x, "_parent", None), ast.Call)]
                run.check(R1, "%s.%s:comment+%s" % (modname, q, " ".join(str(mod.seg(arg.right)).split())[:30]), not raw,
                          "the comment line is built from `%s`, the raw text of the YAML file: a multi-line `decl: |` puts its "
                          "continuation lines into the generated file as code when the option is on"
                          % (mod.seg(raw[0]) if raw else ""), mod.loc(c))
    run.floor(R1, "comment lines built by concatenation", nc, 10)
    rule_r10(repo, run)
    rule_r11(repo, run)
    run.assumptions.append("comment leaders: // /* * for the C family, ! for Fortran, self.comment / "
                           "self.doxygen_* attributes, cstart/cend/fstart/fend constants")


def _in_test(node, test):
    return any(n is node for n in ast.walk(test))


def _norm(s):
    return re.sub(r"\s+", " ", s.strip())


def _rel(node, func):
    return getattr(node, "lineno", 0) - getattr(func, "lineno", 0)


def _ctxkey(mod, g):
    """Stable key for a guard: normalised text of its first statement."""
    st = g.body[0]
    return _norm(mod.seg(st))[:50]
