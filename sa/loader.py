"""Parse the sources of /repo (never import them).

Repo(root=None, overlay=None)
    root     directory of the shroud checkout (default: $VERIF_REPO or /repo)
    overlay  {relative path: source text} replacing the file on disk
             (used by the checker self-test; nothing is written anywhere)

Every check works on `Repo.module(name)` objects: parsed `ast.Module`, source
text, and parent links.  A missing file or a syntax error is an AnalysisError
(exit 2), never a silent pass.
"""
import ast
import json
import hashlib
import os

DEFAULT_ROOT = "/repo"

PY_MODULES = [
    "ast", "declast", "generate", "main", "metadata", "splicer", "statements",
    "todict", "typemap", "util", "visitor", "whelpers", "wrapc", "wrapf",
    "wrapl", "wrapp",
]


class AnalysisError(Exception):
    """The analysis cannot be carried out (anchor vanished, table not
    evaluable, instance floor not reached).  Exit code 2."""


class Module(object):
    def __init__(self, name, relpath, source):
        self.name = name
        self.relpath = relpath
        self.source = source
        self.lines = source.split("\n")
        try:
            self.tree = ast.parse(source, filename=relpath)
        except SyntaxError as e:
            raise AnalysisError("%s does not parse: %s" % (relpath, e))
        self.renamed = canonical_locals(name, self.tree)
        for parent in ast.walk(self.tree):
            for child in ast.iter_child_nodes(parent):
                child._parent = parent
        self.tree._parent = None
        self._funcs = None
        self._classes = None
        self._blines = None
        self._segcache = {}

    # ---- lookup helpers -------------------------------------------------
    def functions(self):
        """{qualified name: FunctionDef} for module functions and methods
        (Class.method); nested functions as outer.<locals>.inner."""
        if self._funcs is None:
            self._funcs = {}
            self._classes = {}

            def rec(body, prefix):
                for node in body:
                    if isinstance(node, (ast.FunctionDef, ast.AsyncFunctionDef)):
                        q = prefix + node.name
                        self._funcs[q] = node
                        node._qualname = q
                        node._module = self
                        rec(node.body, q + ".<locals>.")
                    elif isinstance(node, ast.ClassDef):
                        q = prefix + node.name
                        self._classes[q] = node
                        node._qualname = q
                        node._module = self
                        rec(node.body, q + ".")
                    elif isinstance(node, (ast.If, ast.Try, ast.With, ast.For, ast.While)):
                        for field in ("body", "orelse", "finalbody"):
                            rec(getattr(node, field, []) or [], prefix)
                        for h in getattr(node, "handlers", []) or []:
                            rec(h.body, prefix)
            rec(self.tree.body, "")
        return self._funcs

    def classes(self):
        self.functions()
        return self._classes

    def func(self, qualname):
        f = self.functions().get(qualname)
        if f is None:
            raise AnalysisError("anchor vanished: %s.%s" % (self.name, qualname))
        return f

    def cls(self, name):
        c = self.classes().get(name)
        if c is None:
            raise AnalysisError("anchor vanished: class %s.%s" % (self.name, name))
        return c

    def has_func(self, qualname):
        return qualname in self.functions()

    def toplevel_assign(self, name):
        """Value node of the (last) module-level `name = ...`."""
        found = None
        for node in self.tree.body:
            if isinstance(node, ast.Assign):
                for t in node.targets:
                    if isinstance(t, ast.Name) and t.id == name:
                        found = node.value
        if found is None:
            raise AnalysisError("anchor vanished: %s.%s" % (self.name, name))
        return found

    def raw(self, node):
        """Exact source text of a node (fast replacement for ast.get_source_segment)."""
        try:
            l0, c0, l1, c1 = node.lineno, node.col_offset, node.end_lineno, node.end_col_offset
        except AttributeError:
            return ""
        if l1 is None or c1 is None:
            return ""
        if self._blines is None:
            self._blines = [l.encode("utf-8") for l in self.source.splitlines(True)]
        bl = self._blines
        if l0 == l1:
            return bl[l0 - 1][c0:c1].decode("utf-8")
        parts = [bl[l0 - 1][c0:]] + bl[l0:l1 - 1] + [bl[l1 - 1][:c1]]
        return b"".join(parts).decode("utf-8")

    def seg(self, node):
        """Canonical text of a node: ast.unparse, so that layout, quoting, redundant parentheses,
        comments and split string literals of the analysed source do not matter.  The result is a
        `Seg`: comparing it with / searching it for a fragment canonicalises the fragment too."""
        key = id(node)
        got = self._segcache.get(key)
        if got is None:
            try:
                got = Seg(ast.unparse(node))
            except Exception:
                got = Seg(self.raw(node))
            self._segcache[key] = got
        return got

    def loc(self, node):
        return "%s:%d" % (self.relpath, getattr(node, "lineno", 0))


# ---------------------------------------------------------------------------
# canonical local names
# ---------------------------------------------------------------------------
# The rules of the checks name local variables of the analysed functions (e.g. `fmtsize`, `parts`).  A
# behaviour-preserving rename of a local must not change any verdict, so every function is brought back to the local
# names it had when the rules were written: sa/names.json records, per function, the ordered list of names it binds.
# If a function now binds a name that the record does not know and lacks exactly as many recorded names, the unknown
# names are mapped - in order of first binding - onto the missing ones.  Functions whose set of names is unchanged,
# or whose number of locals changed, are left exactly as they are.
_NAMES = None


def bound_names(fn):
    """ordered, duplicate-free list of the names a function binds (parameters first), nested functions excluded"""
    out = []

    def add(n):
        if n not in out:
            out.append(n)
    a = fn.args
    for arg in a.posonlyargs + a.args + a.kwonlyargs:
        add(arg.arg)
    if a.vararg:
        add(a.vararg.arg)
    if a.kwarg:
        add(a.kwarg.arg)
    todo = list(fn.body)
    order = []
    while todo:
        n = todo.pop(0)
        order.append(n)
        if isinstance(n, (ast.FunctionDef, ast.AsyncFunctionDef, ast.ClassDef, ast.Lambda)):
            continue
        todo = list(ast.iter_child_nodes(n)) + todo
    for n in order:
        if isinstance(n, ast.Name) and isinstance(n.ctx, (ast.Store, ast.Del)):
            add(n.id)
        elif isinstance(n, ast.ExceptHandler) and n.name:
            add(n.name)
        elif isinstance(n, (ast.FunctionDef, ast.AsyncFunctionDef, ast.ClassDef)):
            add(n.name)
    return out


def _qualified_functions(tree):
    out = []

    def rec(body, prefix):
        for node in body:
            if isinstance(node, (ast.FunctionDef, ast.AsyncFunctionDef)):
                out.append((prefix + node.name, node))
                rec(node.body, prefix + node.name + ".<locals>.")
            elif isinstance(node, ast.ClassDef):
                rec(node.body, prefix + node.name + ".")
            elif isinstance(node, (ast.If, ast.Try, ast.With, ast.For, ast.While)):
                for field in ("body", "orelse", "finalbody"):
                    rec(getattr(node, field, []) or [], prefix)
                for h in getattr(node, "handlers", []) or []:
                    rec(h.body, prefix)
    rec(tree.body, "")
    return out


def canonical_locals(modname, tree):
    """rename renamed locals back to their recorded names; returns {qualname: {current: recorded}}"""
    global _NAMES
    if _NAMES is None:
        path = os.path.join(os.path.dirname(os.path.abspath(__file__)), "names.json")
        try:
            with open(path) as fp:
                _NAMES = json.load(fp)
        except (IOError, ValueError):
            _NAMES = {}
    rec = _NAMES.get(modname) or {}
    done = {}
    for qual, fn in _qualified_functions(tree):
        want = rec.get(qual)
        if not want:
            continue
        cur = bound_names(fn)
        if cur == want:
            continue
        new = [n for n in cur if n not in want]
        missing = [n for n in want if n not in cur]
        if not new or len(new) != len(missing):
            continue
        glob = set(x for n in ast.walk(fn) if isinstance(n, (ast.Global, ast.Nonlocal)) for x in n.names)
        mapping = {a: b for a, b in zip(new, missing) if a not in glob}
        if not mapping:
            continue
        for n in ast.walk(fn):
            if isinstance(n, ast.Name) and n.id in mapping:
                n.id = mapping[n.id]
            elif isinstance(n, ast.arg) and n.arg in mapping:
                n.arg = mapping[n.arg]
            elif isinstance(n, ast.ExceptHandler) and n.name in mapping:
                n.name = mapping[n.name]
            elif isinstance(n, ast.keyword) and n.arg in mapping and False:
                pass
        done[qual] = mapping
    return done


_FRAG_CACHE = {}


def canon(frag):
    """Canonical form of a source fragment written in a checker: parsed and unparsed when it is a
    complete expression/statement, else only the quoting is normalised."""
    got = _FRAG_CACHE.get(frag)
    if got is not None:
        return got
    out = None
    f = frag.strip("\n")
    try:
        lines = f.split("\n")
        ind = min((len(l) - len(l.lstrip()) for l in lines if l.strip()), default=0)
        src = "\n".join(l[ind:] for l in lines)
        try:
            out = ast.unparse(ast.parse(src, mode="eval"))
        except SyntaxError:
            out = ast.unparse(ast.parse(src))
    except (SyntaxError, ValueError, IndentationError):
        out = None
    if out is None or not out.strip():
        out = frag
        if '"' in out and "'" not in out:
            out = out.replace('"', "'")
    _FRAG_CACHE[frag] = out
    return out


class Seg(str):
    """str holding canonical (ast.unparse) text; fragments it is compared with are canonicalised."""

    def _alts(self, frag):
        if not isinstance(frag, str) or isinstance(frag, Seg):
            return [frag]
        c = canon(frag)
        return [c] if c == frag else [c, frag]

    def __contains__(self, frag):
        for a in self._alts(frag):
            if str.__contains__(self, a):
                return True
            if isinstance(a, str) and "\n" in a:
                # multi-line fragment: its lines, in order, among the lines of this text
                want = [l.strip() for l in a.split("\n") if l.strip()]
                have = [l.strip() for l in str(self).split("\n")]
                i = 0
                for h in have:
                    if i < len(want) and h == want[i]:
                        i += 1
                if want and i == len(want):
                    return True
        return False

    def __eq__(self, other):
        return any(str.__eq__(self, a) is True for a in self._alts(other))

    def __ne__(self, other):
        return not self.__eq__(other)

    __hash__ = str.__hash__

    def count(self, frag, *a):
        return max(str.count(self, x, *a) for x in self._alts(frag))

    def find(self, frag, *a):
        for x in self._alts(frag):
            r = str.find(self, x, *a)
            if r >= 0:
                return r
        return -1

    def startswith(self, frag, *a):
        if isinstance(frag, tuple):
            return any(self.startswith(f, *a) for f in frag)
        return any(str.startswith(self, x, *a) for x in self._alts(frag))

    def endswith(self, frag, *a):
        if isinstance(frag, tuple):
            return any(self.endswith(f, *a) for f in frag)
        return any(str.endswith(self, x, *a) for x in self._alts(frag))


class Repo(object):
    def __init__(self, root=None, overlay=None):
        self.root = root or os.environ.get("VERIF_REPO") or DEFAULT_ROOT
        self.overlay = dict(overlay or {})
        self._mods = {}
        self._texts = {}

    def read(self, relpath):
        if relpath in self._texts:
            return self._texts[relpath]
        if relpath in self.overlay:
            text = self.overlay[relpath]
        else:
            path = os.path.join(self.root, relpath)
            try:
                with open(path, "r", encoding="utf-8") as fp:
                    text = fp.read()
            except (IOError, OSError) as e:
                raise AnalysisError("cannot read %s: %s" % (path, e))
        self._texts[relpath] = text
        return text

    def module(self, name):
        if name not in self._mods:
            rel = "shroud/%s.py" % name
            self._mods[name] = Module(name, rel, self.read(rel))
        return self._mods[name]

    def modules(self, names=None):
        return [self.module(n) for n in (names or PY_MODULES)]

    def digest(self, names=None):
        h = hashlib.sha256()
        for n in (names or PY_MODULES):
            h.update(self.module(n).source.encode("utf-8"))
        return h.hexdigest()[:16]


def parent_chain(node):
    """Yield ancestors from the immediate parent up to the Module."""
    p = getattr(node, "_parent", None)
    while p is not None:
        yield p
        p = getattr(p, "_parent", None)


def enclosing_function(node):
    for p in parent_chain(node):
        if isinstance(p, (ast.FunctionDef, ast.AsyncFunctionDef)):
            return p
    return None


def enclosing_class(node):
    for p in parent_chain(node):
        if isinstance(p, ast.ClassDef):
            return p
    return None
