"""Symbol tables and a call graph for the shroud package (no imports, no
execution).

Program(repo)
  .funcs            {"mod:Qual.name": FunctionDef}
  .classes          {"mod:Class": ClassDef}
  .mro(cls_id)      linearised bases that live in the package
  .resolve_call(call, ctx_func_id) -> [func ids]   (possibly empty)
  .callees(fid)     resolved callee ids of a function (cached)
  .reachable(fid)   transitive closure
Resolution order: local/nested function, module function or class
(constructor -> __init__), imported module attribute, self.method through
the MRO, and finally *unique-name* resolution of `x.method()` when exactly
one method of that name exists in the package (recorded as 'byname').
"""
import ast

from . import pyflow
from .loader import PY_MODULES, enclosing_class, enclosing_function


class Program(object):
    def __init__(self, repo, modules=None):
        self.repo = repo
        self.modnames = list(modules or PY_MODULES)
        self.mods = {n: repo.module(n) for n in self.modnames}
        self.funcs = {}
        self.classes = {}
        self.imports = {}      # mod -> {local name: module name}
        self.from_names = {}   # mod -> {local name: (module, name)}
        self.by_method_name = {}
        for mn, m in self.mods.items():
            for q, f in m.functions().items():
                fid = "%s:%s" % (mn, q)
                self.funcs[fid] = f
                f._fid = fid
                if "." in q and "<locals>" not in q:
                    self.by_method_name.setdefault(q.split(".")[-1], []).append(fid)
            for q, c in m.classes().items():
                self.classes["%s:%s" % (mn, q)] = c
                c._cid = "%s:%s" % (mn, q)
            imp = {}
            frm = {}
            for node in ast.walk(m.tree):
                if isinstance(node, ast.ImportFrom) and node.level >= 1:
                    for a in node.names:
                        local = a.asname or a.name
                        if node.module is None:
                            if a.name in self.modnames or a.name in PY_MODULES:
                                imp[local] = a.name
                        else:
                            frm[local] = (node.module, a.name)
            self.imports[mn] = imp
            self.from_names[mn] = frm
        self._callees = {}
        self._unresolved = {}

    # ------------------------------------------------------------------
    def module_of(self, fid):
        return fid.split(":")[0]

    def class_id_of(self, func):
        c = enclosing_class(func)
        if c is None:
            return None
        return getattr(c, "_cid", None)

    def mro(self, cid):
        out = []
        stack = [cid]
        while stack:
            c = stack.pop(0)
            if c in out or c not in self.classes:
                continue
            out.append(c)
            mn = c.split(":")[0]
            for b in self.classes[c].bases:
                d = pyflow.dotted(b)
                if not d:
                    continue
                parts = d.split(".")
                if len(parts) == 1:
                    cand = "%s:%s" % (mn, parts[0])
                    if cand in self.classes:
                        stack.append(cand)
                    elif parts[0] in self.from_names.get(mn, {}):
                        m2, n2 = self.from_names[mn][parts[0]]
                        stack.append("%s:%s" % (m2, n2))
                elif len(parts) == 2 and parts[0] in self.imports.get(mn, {}):
                    stack.append("%s:%s" % (self.imports[mn][parts[0]], parts[1]))
        return out

    def find_method(self, cid, name):
        for c in self.mro(cid):
            fid = "%s.%s" % (c, name)
            if fid in self.funcs:
                return fid
        return None

    def subclasses(self, cid):
        return [c for c in self.classes if cid in self.mro(c)]

    # ------------------------------------------------------------------
    def resolve_call(self, call, ctx_fid):
        """Return (list of callee ids, how)."""
        mn = self.module_of(ctx_fid)
        func = call.func
        ctx = self.funcs.get(ctx_fid)
        if isinstance(func, ast.Name):
            name = func.id
            # nested function of the context
            q = ctx_fid + ".<locals>." + name
            if q in self.funcs:
                return [q], "local"
            # walk outward through enclosing functions
            base = ctx_fid
            while ".<locals>." in base:
                base = base.rsplit(".<locals>.", 1)[0]
                q = base + ".<locals>." + name
                if q in self.funcs:
                    return [q], "local"
            fid = "%s:%s" % (mn, name)
            if fid in self.funcs:
                return [fid], "module"
            if fid in self.classes:
                init = self.find_method(fid, "__init__")
                return ([init] if init else []), "ctor"
            if name in self.from_names.get(mn, {}):
                m2, n2 = self.from_names[mn][name]
                fid = "%s:%s" % (m2, n2)
                if fid in self.funcs:
                    return [fid], "from"
            # module-level alias  `wformat = util.wformat`
            ali = self._alias(mn, name)
            if ali:
                return [ali], "alias"
            return [], "unresolved"
        if isinstance(func, ast.Attribute):
            d = pyflow.dotted(func)
            if d:
                parts = d.split(".")
                if parts[0] == "self" and len(parts) == 2 and ctx is not None:
                    cid = self.class_id_of(ctx)
                    if cid:
                        # method may be overridden in subclasses; include those too
                        out = []
                        f0 = self.find_method(cid, parts[1])
                        if f0:
                            out.append(f0)
                        for sc in self.subclasses(cid):
                            f1 = "%s.%s" % (sc, parts[1])
                            if f1 in self.funcs and f1 not in out:
                                out.append(f1)
                        if out:
                            return out, "self"
                if parts[0] in self.imports.get(mn, {}) and len(parts) >= 2:
                    m2 = self.imports[mn][parts[0]]
                    fid = "%s:%s" % (m2, ".".join(parts[1:]))
                    if fid in self.funcs:
                        return [fid], "module"
                    if fid in self.classes:
                        init = self.find_method(fid, "__init__")
                        return ([init] if init else []), "ctor"
                    # Class(...).method()
            # x.method(): unique name
            cands = self.by_method_name.get(func.attr, [])
            if len(cands) == 1:
                return list(cands), "byname"
            if 1 < len(cands) <= 6:
                return list(cands), "byname-multi"
            # ClassCall(...).method()
            if isinstance(func.value, ast.Call):
                inner, how = self.resolve_call(func.value, ctx_fid)
                for i in inner:
                    if i.endswith(".__init__"):
                        m = self.find_method(i[:-len(".__init__")], func.attr)
                        if m:
                            return [m], "ctor-method"
        return [], "unresolved"

    def _alias(self, mn, name):
        m = self.mods[mn]
        for node in m.tree.body:
            if isinstance(node, ast.Assign) and len(node.targets) == 1 and \
                    pyflow.is_name(node.targets[0], name):
                d = pyflow.dotted(node.value)
                if d and "." in d:
                    p = d.split(".")
                    if p[0] in self.imports.get(mn, {}):
                        fid = "%s:%s" % (self.imports[mn][p[0]], ".".join(p[1:]))
                        if fid in self.funcs:
                            return fid
        return None

    def calls_of(self, fid):
        """Call nodes lexically inside the function (not nested defs)."""
        f = self.funcs[fid]
        out = []
        for st in f.body:
            out.extend(pyflow.calls_in(st))
        return out

    def callees(self, fid, strict=False):
        key = (fid, strict)
        if key in self._callees:
            return self._callees[key]
        out = []
        unresolved = []
        for call in self.calls_of(fid):
            ids, how = self.resolve_call(call, fid)
            if strict and how.startswith("byname-multi"):
                ids = []
            if not ids:
                unresolved.append(call)
            for i in ids:
                if i not in out:
                    out.append(i)
        # visitor dispatch: X.visit(node) reaches the visit_* methods
        if any(i.endswith(":Visitor.visit") for i in out):
            ctx = self.funcs[fid]
            cid = self.class_id_of(ctx)
            visitor_classes = []
            for call in self.calls_of(fid):
                if isinstance(call.func, ast.Attribute) and call.func.attr == "visit":
                    if pyflow.is_name(call.func.value, "self") and cid:
                        visitor_classes.extend(self.mro(cid) + self.subclasses(cid))
                    else:
                        for c in self.classes:
                            if any(b.endswith(":Visitor") for b in self.mro(c)):
                                visitor_classes.append(c)
            for c in visitor_classes:
                for q in self.funcs:
                    if q.startswith(c + ".visit_") and q not in out:
                        out.append(q)
        # nested functions defined here are considered called (closures, callbacks)
        for q in self.funcs:
            if q.startswith(fid + ".<locals>.") and q.count(".<locals>.") == fid.count(".<locals>.") + 1:
                if q not in out:
                    out.append(q)
        self._callees[key] = out
        self._unresolved[fid] = unresolved
        return out

    def reachable(self, roots, strict=False, dunder=True):
        seen = []
        stack = list(roots)
        if dunder:
            # implicit protocol methods (__getattr__, __str__, __contains__ ...)
            for q in self.funcs:
                last = q.split(".")[-1]
                if last.startswith("__") and last.endswith("__") and last != "__init__":
                    stack.append(q)
        while stack:
            f = stack.pop()
            if f in seen or f not in self.funcs:
                continue
            seen.append(f)
            stack.extend(self.callees(f, strict))
        return seen
