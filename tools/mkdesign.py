#!/usr/bin/env python3
"""Refresh the generated tables of DESIGN.md (between <!-- X-BEGIN --> and
<!-- X-END --> markers) from evidence/*.json, selftest/variants.py and
seeded/RESULTS.json.  Development aid; not part of any check."""
import collections
import glob
import json
import os
import re
import sys

HERE = os.path.dirname(os.path.dirname(os.path.abspath(__file__)))
sys.path.insert(0, HERE)


def rules_table():
    from selftest import variants
    per = collections.Counter((v["property"], v["rule"], v["expect"]) for v in variants.VARIANTS)
    out = ["| rule | what is decided (rule text printed by the check) | instances on today's tree (floor) | obligations | self-test variants fire/silent/error |",
           "|---|---|---|---|---|"]
    for i in range(1, 19):
        p = "C%02d" % i
        c = json.load(open(os.path.join(HERE, "evidence", p + ".json")))["coverage"]
        for r, v in sorted(c["rules"].items(), key=lambda kv: (len(kv[0]), kv[0])):
            out.append("| %s | %s | %s | %d | %d/%d/%d |" % (
                r, v["text"].replace("|", "\\|"), (v["floor"] or "–").replace("|", "\\|"), v["obligations"],
                per[(p, r, "fire")], per[(p, r, "silent")], per[(p, r, "error")]))
    return "\n".join(out)


def seeded_table():
    path = os.path.join(HERE, "seeded", "RESULTS.json")
    if not os.path.exists(path):
        return "(no seeded results recorded yet)"
    res = json.load(open(path))
    out = ["| change | what it does | needs | reported by (new violations on the changed tree) |", "|---|---|---|---|"]
    for key in sorted(res):
        prop, k = key.split("/")
        meta = json.load(open(os.path.join(HERE, "seeded", prop, k, "meta.json")))
        row = res[key]
        rep = []
        for p, v in sorted(row["new"].items()):
            rules = sorted(set(x.split()[0] for x in v))
            rep.append("%s" % ", ".join(rules))
        for p, e in sorted(row.get("errors", {}).items()):
            rep.append("%s ANALYSIS-ERROR" % p)
        verdict = "; ".join(rep) if rep else "**not reported** – " + meta.get("why_missed", "see below")
        out.append("| %s | %s | %s | %s |" % (key, meta.get("title", "").replace("|", "\\|"),
                                              str(meta.get("needs", "")).replace("|", "\\|").replace("\n", " ")[:160], verdict))
    return "\n".join(out)


def main():
    p = os.path.join(HERE, "DESIGN.md")
    s = open(p).read()
    for name, fn in (("RULES", rules_table), ("SEEDED", seeded_table)):
        b, e = "<!-- %s-BEGIN -->" % name, "<!-- %s-END -->" % name
        if b in s:
            i, j = s.index(b) + len(b), s.index(e)
            s = s[:i] + "\n" + fn() + "\n" + s[j:]
    open(p, "w").write(s)


if __name__ == "__main__":
    main()
