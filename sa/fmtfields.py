"""Format-field def/use (rule family F1).

defined_fields(repo, modules) -> {field: [(module, line)]}: every name that
can become an attribute of a format scope:
  * attribute stores `<expr>.NAME = ...` / augmented, where <expr> is not
    plain `self` (format scopes are never `self`)
  * keywords of util.Scope(...)/Scope(...) constructor calls
  * keywords of dict(...) / keys of {...} passed to `.update(...)`
  * setattr(x, "NAME" [+ ...], v) with a constant prefix  (prefix recorded
    with a trailing '*')
  * eval_template("NAME"[, "_suffix"]) / set_fmt_default("NAME", v) calls
    (AstNode methods that store under NAME)
  * `x["NAME"] = v` subscript stores and keywords of any dict(...) call
    (dictionaries used as format mappings)
  * `.setdefault("NAME", ...)` on any receiver
used_fields(templates) is computed by the callers with templ.fields().
"""
import ast

from . import pyflow


def defined_fields(repo, modules):
    out = {}

    def add(name, mod, node):
        out.setdefault(name, []).append((mod.name, getattr(node, "lineno", 0)))

    for mname in modules:
        mod = repo.module(mname)
        for node in ast.walk(mod.tree):
            if isinstance(node, (ast.Assign, ast.AugAssign, ast.AnnAssign)):
                targets = node.targets if isinstance(node, ast.Assign) else [node.target]
                for t in targets:
                    elts = t.elts if isinstance(t, (ast.Tuple, ast.List)) else [t]
                    for tt in elts:
                        if isinstance(tt, ast.Attribute):
                            if isinstance(tt.value, ast.Name) and tt.value.id == "self":
                                continue
                            add(tt.attr, mod, node)
                        elif isinstance(tt, ast.Subscript):
                            s = pyflow.const_str(tt.slice)
                            if s:
                                add(s, mod, node)
            elif isinstance(node, ast.Dict):
                # a dict display with constant keys is the literal spelling of dict(k=v, ...)
                for k in node.keys:
                    s = pyflow.const_str(k) if k is not None else None
                    if s and s.isidentifier():
                        add(s, mod, node)
            elif isinstance(node, ast.Call):
                fn = pyflow.call_name(node) or ""
                last = fn.split(".")[-1]
                if last == "Scope":
                    for k in node.keywords:
                        if k.arg:
                            add(k.arg, mod, node)
                elif last == "update" and node.args:
                    a = node.args[0]
                    if isinstance(a, ast.Call) and (pyflow.call_name(a) or "") == "dict":
                        for k in a.keywords:
                            if k.arg:
                                add(k.arg, mod, node)
                    elif isinstance(a, ast.Dict):
                        for k in a.keys:
                            s = pyflow.const_str(k)
                            if s:
                                add(s, mod, node)
                elif last == "setattr" and len(node.args) >= 2:
                    a = node.args[1]
                    s = pyflow.const_str(a)
                    if s:
                        add(s, mod, node)
                    elif isinstance(a, ast.BinOp) and isinstance(a.op, ast.Add):
                        s = pyflow.const_str(a.left)
                        if s:
                            add(s + "*", mod, node)
                elif last == "dict":
                    for k in node.keywords:
                        if k.arg:
                            add(k.arg, mod, node)
                elif last in ("eval_template", "set_fmt_default") and node.args:
                    s = pyflow.const_str(node.args[0])
                    if s:
                        add(s, mod, node)
                elif last == "setdefault" and node.args:
                    s = pyflow.const_str(node.args[0])
                    if s:
                        add(s, mod, node)
    return out


def is_defined(field, defs):
    if field in defs:
        return True
    for k in defs:
        if k.endswith("*") and field.startswith(k[:-1]):
            return True
    return False
