"""Repository-wide lints of general form, shared by several property checks.  Each returns a list of
(module name, qualified function, node, message) for the constructs it objects to, plus the number of
sites it looked at, so that callers can set floors."""
import ast
import re

from . import pyflow

# parsed values for which "absent" (None) and "empty / zero" are different things
OPTIONAL_FIELDS = {
    "init": "a default value of 0 / 0.0 / '' is a default value",
    "params": "an empty parameter list `()` is a parameter list (a function), None means no parentheses",
    "args": "an empty argument list `f()` is a call, None means a plain name",
}


def truthiness_of_optional(repo, modules, fields=None):
    """`if x.init:` / `if not x.params:` where the field distinguishes None from empty."""
    out, n = [], 0
    for mn in modules:
        m = repo.module(mn)
        for q, fn in m.functions().items():
            for node in ast.walk(fn):
                if not isinstance(node, (ast.If, ast.While, ast.IfExp)):
                    continue
                t = node.test
                for c in (t.values if isinstance(t, ast.BoolOp) else [t]):
                    neg = False
                    if isinstance(c, ast.UnaryOp) and isinstance(c.op, ast.Not):
                        c, neg = c.operand, True
                    if isinstance(c, ast.Attribute) and c.attr in OPTIONAL_FIELDS and (fields is None or c.attr in fields):
                        n += 1
                        # allowed: inside a block already guarded by `<same> is not None` (then emptiness is the question)
                        text = ast.unparse(c)
                        guarded = any((ast.unparse(tt) == text + " is not None" and pol) or
                                      (ast.unparse(tt) == text + " is None" and not pol)
                                      for tt, pol in pyflow.dominating_tests(node, stop=fn))
                        # allowed: conjunction with another discriminating test on the same object (size(...) and node.args)
                        conj = isinstance(t, ast.BoolOp) and isinstance(t.op, ast.And) and len(t.values) > 1 and not neg
                        if not guarded and not conj:
                            out.append((mn, q, node, "`%s%s` tests truthiness of %s: %s" % ("not " if neg else "", text, c.attr,
                                                                                              OPTIONAL_FIELDS[c.attr])))
    return out, n


def loop_variable_after_loop(repo, modules):
    """A for-loop target read after the loop in the same block (it holds the *last* element only)."""
    out, n = [], 0
    for mn in modules:
        m = repo.module(mn)
        for q, fn in m.functions().items():
            for owner in ast.walk(fn):
                for fld in ("body", "orelse", "finalbody"):
                    blk = getattr(owner, fld, None)
                    if not (isinstance(blk, list) and blk and isinstance(blk[0], ast.stmt)):
                        continue
                    for i, st in enumerate(blk):
                        if not isinstance(st, ast.For):
                            continue
                        n += 1
                        live = set(x.id for x in ast.walk(st.target) if isinstance(x, ast.Name))
                        for later in blk[i + 1:]:
                            stores = set(x.id for x in ast.walk(later) if isinstance(x, ast.Name) and isinstance(x.ctx, ast.Store))
                            for x in ast.walk(later):
                                if isinstance(x, ast.Name) and isinstance(x.ctx, ast.Load) and x.id in live and x.id not in stores:
                                    out.append((mn, q, x, "`%s` is the target of the loop at line %d and is read after the loop: "
                                                "only the last element is processed" % (x.id, st.lineno)))
                                    live = live - {x.id}
                            live = live - stores
    return out, n


def library_options_in_node_pass(repo, modules):
    """`options = self.newlibrary.options` in a function that works on one declaration."""
    out, n = [], 0
    for mn in modules:
        m = repo.module(mn)
        for q, fn in m.functions().items():
            params = [a.arg for a in fn.args.args]
            if not any(p in params for p in ("node", "cls", "function", "method", "var")):
                continue
            for a in ast.walk(fn):
                if isinstance(a, ast.Assign) and pyflow.is_name(a.targets[0], "options"):
                    n += 1
                    if "newlibrary.options" in ast.unparse(a.value) or "library.options" in ast.unparse(a.value):
                        out.append((mn, q, a, "`%s` in a pass over one declaration: options set on the declaration or its "
                                    "containers are ignored (only the library level counts)" % ast.unparse(a)))
    return out, n


def rebound_parameter_in_loop(repo, modname, qual, param):
    """parameter `param` of modname.qual assigned inside a loop of that function"""
    m = repo.module(modname)
    fn = m.func(qual)
    out = []
    for lp in ast.walk(fn):
        if isinstance(lp, (ast.For, ast.While)):
            for a in ast.walk(lp):
                if isinstance(a, (ast.Assign, ast.AugAssign)):
                    for t in (a.targets if isinstance(a, ast.Assign) else [a.target]):
                        if pyflow.is_name(t, param):
                            out.append((modname, qual, a, "parameter `%s` is rebound inside the loop: the following iterations "
                                        "(siblings) see the new value" % param))
    return out


def degenerate_dict_key(repo, modules):
    """`d[E]` / `E in d` where a dominating test pins E to a constant (`if E == "template":`): every entry
    shares one key, so a cache keyed that way returns the first value for everything."""
    out, n = [], 0
    for mn in modules:
        m = repo.module(mn)
        for q, fn in m.functions().items():
            for node in ast.walk(fn):
                key = None
                if isinstance(node, ast.Subscript) and not isinstance(node.slice, (ast.Constant, ast.Slice)):
                    key = node.slice
                elif isinstance(node, ast.Compare) and len(node.ops) == 1 and isinstance(node.ops[0], (ast.In, ast.NotIn)) \
                        and not isinstance(node.left, ast.Constant):
                    key = node.left
                if key is None or isinstance(key, ast.Name):
                    continue
                n += 1
                kt = ast.unparse(key)
                for t, pol in pyflow.dominating_tests(node, stop=fn):
                    if pol and isinstance(t, ast.Compare) and len(t.ops) == 1 and isinstance(t.ops[0], ast.Eq) \
                            and ast.unparse(t.left) == kt and isinstance(t.comparators[0], ast.Constant):
                        out.append((mn, q, node, "the key `%s` is known to equal %r here (guard `%s`): all entries collapse onto "
                                    "one key" % (kt, t.comparators[0].value, ast.unparse(t))))
                        break
    return out, n


def aliased_then_mutated(repo, modname, qual):
    """`a = x.attr` (no copy) followed by a store through `a` (a.f = .. / a.d[k] = ..): the original is changed."""
    m = repo.module(modname)
    fn = m.func(qual)
    out = []
    for asg in ast.walk(fn):
        if isinstance(asg, ast.Assign) and isinstance(asg.targets[0], ast.Name) and isinstance(asg.value, ast.Attribute):
            a = asg.targets[0].id
            for st in ast.walk(fn):
                if isinstance(st, ast.Assign) and st.lineno > asg.lineno:
                    for t in st.targets:
                        base = t
                        while isinstance(base, (ast.Attribute, ast.Subscript)):
                            base = base.value
                        if isinstance(t, (ast.Attribute, ast.Subscript)) and isinstance(base, ast.Name) and base.id == a:
                            out.append((modname, qual, st, "`%s` is bound to `%s` without a copy and then written through (`%s`): the "
                                        "object it came from is modified" % (a, ast.unparse(asg.value), ast.unparse(st)[:50])))
    return out


LIBRARY_LEVEL_OPTIONS = {
    "literalinclude2": "documented as a library-level option (C16: 'library-level literalinclude2 excluded')",
    "PY_write_helper_in_util": "one utility file per library: a per-declaration value has no meaning",
}


def library_option_reads(repo, modules):
    """`<library>.options.X` read in a function that works on one declaration (has a node/cls/... parameter)"""
    out, n = [], 0
    for mn in modules:
        m = repo.module(mn)
        for q, fn in m.functions().items():
            params = [a.arg for a in fn.args.args]
            per_decl = any(p in params for p in ("node", "cls", "function", "method", "var"))
            # ... or a loop over declarations inside a function that takes the whole list
            in_decl_loop = set()
            for lp in ast.walk(fn):
                if isinstance(lp, ast.For) and isinstance(lp.target, ast.Name) and lp.target.id in ("node", "cls", "function", "method", "var"):
                    in_decl_loop.update(id(x) for x in ast.walk(lp))
            # `node, fmt, arg = self.table[key]` inside a loop: the loop body works on one declaration as well
            for lp in ast.walk(fn):
                if isinstance(lp, (ast.For, ast.While)):
                    for a in ast.walk(lp):
                        if isinstance(a, ast.Assign) and any(isinstance(e, ast.Name) and e.id in ("node", "cls", "function", "method", "var")
                                                             for t in a.targets for e in ast.walk(t)):
                            in_decl_loop.update(id(x) for x in ast.walk(lp))
            if not per_decl and not in_decl_loop:
                continue
            # local names for the library's option table
            lib_alias = set()
            for a in ast.walk(fn):
                if isinstance(a, ast.Assign) and len(a.targets) == 1 and isinstance(a.targets[0], ast.Name) \
                        and isinstance(a.value, ast.Attribute) and a.value.attr == "options":
                    d = pyflow.dotted(a.value.value) or ""
                    if d.endswith("newlibrary") or d in ("libnode", "library"):
                        binds = [b for b in ast.walk(fn) if isinstance(b, ast.Assign) and any(pyflow.is_name(t_, a.targets[0].id) for t_ in b.targets)]
                        if len(binds) == 1:
                            lib_alias.add(a.targets[0].id)
            for x in ast.walk(fn):
                if not per_decl and id(x) not in in_decl_loop:
                    continue
                if isinstance(x, ast.Attribute) and isinstance(x.value, ast.Name) and x.value.id in lib_alias and isinstance(x.ctx, ast.Load):
                    n += 1
                    if x.attr not in LIBRARY_LEVEL_OPTIONS:
                        out.append((mn, q, x, "`%s.%s` (the library's option table) is read inside a pass over one declaration: "
                                    "the same option set on the declaration (or its class/namespace) is ignored" % (x.value.id, x.attr)))
                if isinstance(x, ast.Attribute) and isinstance(x.value, ast.Attribute) and x.value.attr == "options":
                    d = pyflow.dotted(x.value.value) or ""
                    if d.endswith("newlibrary") or d in ("libnode", "library"):
                        n += 1
                        if x.attr not in LIBRARY_LEVEL_OPTIONS:
                            out.append((mn, q, x, "`%s` reads the option at library level inside a pass over one declaration: "
                                        "the same option set on the declaration (or its class/namespace) is ignored"
                                        % (pyflow.dotted(x) or x.attr)))
    return out, n


def dead_none_tests(repo, modules):
    """`x.F is None` / `is not None` where F is a field that Declaration.__init__ creates as a list and nothing ever
    sets to None: the test is constant, so a check guarded by it never runs (use `not x.F`)."""
    dm = repo.module("declast")
    ini = dm.func("Declaration.__init__")
    lists = set(a.targets[0].attr for a in ast.walk(ini) if isinstance(a, ast.Assign)
                and isinstance(a.targets[0], ast.Attribute) and isinstance(a.value, ast.List))
    for m in repo.modules():
        for a in ast.walk(m.tree):
            if isinstance(a, ast.Assign) and isinstance(a.targets[0], ast.Attribute) and a.targets[0].attr in lists \
                    and isinstance(a.value, ast.Constant) and a.value.value is None:
                lists.discard(a.targets[0].attr)
    out, n = [], 0
    for mn in modules:
        m = repo.module(mn)
        for q, fn in m.functions().items():
            for c in ast.walk(fn):
                if isinstance(c, ast.Compare) and len(c.ops) == 1 and isinstance(c.ops[0], (ast.Is, ast.IsNot)) \
                        and isinstance(c.comparators[0], ast.Constant) and c.comparators[0].value is None:
                    n += 1
                    src = c.left
                    # follow one local alias:  temp = arg.template_arguments ; if temp is None
                    if isinstance(src, ast.Name):
                        defs = [a.value for a in ast.walk(fn) if isinstance(a, ast.Assign) and pyflow.is_name(a.targets[0], src.id)]
                        if len(defs) == 1:
                            src = defs[0]
                    if isinstance(src, ast.Attribute) and src.attr in lists:
                        out.append((mn, q, c, "`%s` can never hold: %s is always a list (possibly empty); the check it guards "
                                    "is dead" % (ast.unparse(c), src.attr)))
    return out, n, lists


def _tokens(name):
    import re
    # (case boundaries are found before lowering; a plural is its singular)
    parts = re.split(r"[_\W]+|(?<=[a-z])(?=[A-Z])", name)
    return set(t.lower()[:-1] if len(t) > 3 and t.lower().endswith("s") else t.lower() for t in parts if t)


def swapped_arguments(repo, modules):
    """A positional argument whose name says it is parameter j is passed in position i (and the argument in
    position j does not carry its own parameter's name either): `f(out, PY_force, PY_impl)` against
    `def f(out, default, force)`.  Callees are resolved by name: methods of the same class first, then a
    function/method name that is defined once in the analysed modules."""
    defs = {}
    for mn in modules:
        m = repo.module(mn)
        for q, fn in m.functions().items():
            defs.setdefault(fn.name, []).append((mn, q, fn))
    out, n = [], 0
    for mn in modules:
        m = repo.module(mn)
        for q, fn in m.functions().items():
            for call in ast.walk(fn):
                if not isinstance(call, ast.Call) or len(call.args) < 2:
                    continue
                f = call.func
                name = f.attr if isinstance(f, ast.Attribute) else (f.id if isinstance(f, ast.Name) else None)
                cands = defs.get(name) or []
                if isinstance(f, ast.Attribute) and isinstance(f.value, ast.Name) and f.value.id == "self" and "." in q:
                    same = [c for c in cands if c[1].rsplit(".", 1)[0] == q.rsplit(".", 1)[0]]
                    cands = same or cands
                if len(cands) != 1 or any(isinstance(a, ast.Starred) for a in call.args):
                    continue
                callee = cands[0][2]
                params = [a.arg for a in callee.args.args]
                if params and params[0] in ("self", "cls") and isinstance(f, ast.Attribute):
                    params = params[1:]
                if len(params) < len(call.args):
                    continue
                n += 1
                argn = []
                for a in call.args:
                    if isinstance(a, ast.Name):
                        argn.append(a.id)
                    elif isinstance(a, ast.Attribute):
                        argn.append(a.attr)
                    else:
                        argn.append(None)
                for i, an in enumerate(argn):
                    if an is None:
                        continue
                    ti = _tokens(an)
                    if _tokens(params[i]) & ti:
                        continue
                    for j, pj in enumerate(params[:len(argn)]):
                        if j == i or not (_tokens(pj) <= ti) or len(pj) < 3:
                            continue
                        aj = argn[j]
                        if aj is not None and (_tokens(pj) & _tokens(aj)):
                            continue   # position j has an argument of its own name
                        # the two arguments are siblings (PY_force / PY_impl): unrelated names prove nothing
                        if aj is not None and (_tokens(aj) & ti):
                            out.append((mn, q, call, "`%s(...)`: argument `%s` is passed as parameter `%s`, while parameter `%s` of %s receives `%s` "
                                        "- the names say the arguments are in the wrong order" % (name, an, params[i], pj, cands[0][1],
                                                                                                 aj if aj is not None else "<expression>")))
    return out, n


def overstrict_index_guard(repo, modules):
    """`... and E < len(S) - 1 and S[E]...`: the bound that protects the subscript `S[E]` excludes the valid index
    len(S) - 1 (the element is never looked at in the last position).  Exact protections are `E < len(S)` and
    `E <= len(S) - 1`."""
    out, n = [], 0
    for mn in modules:
        m = repo.module(mn)
        for q, fn in m.functions().items():
            for b in ast.walk(fn):
                if not (isinstance(b, ast.BoolOp) and isinstance(b.op, ast.And)):
                    continue
                for i, c in enumerate(b.values):
                    if not (isinstance(c, ast.Compare) and len(c.ops) == 1 and isinstance(c.ops[0], (ast.Lt, ast.LtE))):
                        continue
                    rhs = c.comparators[0]
                    k = 0
                    if isinstance(rhs, ast.BinOp) and isinstance(rhs.op, ast.Sub) and isinstance(rhs.right, ast.Constant) \
                            and isinstance(rhs.right.value, int):
                        k, rhs = rhs.right.value, rhs.left
                    if not (isinstance(rhs, ast.Call) and isinstance(rhs.func, ast.Name) and rhs.func.id == "len" and rhs.args):
                        continue
                    seq, idx = ast.unparse(rhs.args[0]), ast.unparse(c.left)
                    uses = [s for v in b.values[i + 1:] for s in ast.walk(v) if isinstance(s, ast.Subscript)
                            and ast.unparse(s.value) == seq and ast.unparse(s.slice) == idx]
                    if not uses:
                        continue
                    n += 1
                    last_allowed = -k - (1 if isinstance(c.ops[0], ast.Lt) else 0)      # relative to len(S)
                    if last_allowed < -1:
                        out.append((mn, q, c, "`%s` protects `%s[%s]` but also excludes the valid index len(%s) - 1"
                                    % (ast.unparse(c), seq, idx, seq)))
    return out, n


def _is_reset_value(v):
    return isinstance(v, ast.Constant) or (isinstance(v, (ast.List, ast.Dict, ast.Tuple, ast.Set))
                                           and not (getattr(v, "elts", None) or getattr(v, "keys", None))) \
        or (isinstance(v, ast.Call) and isinstance(v.func, ast.Name) and v.func.id in ("dict", "list", "set", "OrderedDict")
            and not v.args and not v.keywords)


def reset_depths(fn):
    """{name: deepest loop nesting at which `name = <constant / empty container>` occurs} for names that are
    assigned more than once in the function (a constant assignment of such a name is a reset)"""
    from .loader import parent_chain
    assigns = {}
    for a in ast.walk(fn):
        if isinstance(a, ast.Assign):
            for t in a.targets:
                for nm in ast.walk(t):
                    if isinstance(nm, ast.Name) and isinstance(nm.ctx, ast.Store):
                        assigns.setdefault(nm.id, []).append(a)
        elif isinstance(a, (ast.AugAssign, ast.For)) and isinstance(getattr(a, "target", None), ast.Name):
            assigns.setdefault(a.target.id, []).append(a)
    out = {}
    for name, lst in assigns.items():
        if len(lst) < 2:
            continue
        for a in lst:
            if isinstance(a, ast.Assign) and len(a.targets) == 1 and isinstance(a.targets[0], ast.Name) and _is_reset_value(a.value):
                depth = 0
                inner = None
                for p in parent_chain(a):
                    if p is fn:
                        break
                    if isinstance(p, (ast.For, ast.While)):
                        depth += 1
                        inner = inner or p
                    if isinstance(p, (ast.FunctionDef, ast.AsyncFunctionDef)):
                        break
                if inner is not None:
                    # a reset: the same loop assigns the name something else further down
                    later = [b for b in lst if b is not a and getattr(b, "lineno", 0) > a.lineno
                             and any(x is b for x in ast.walk(inner))
                             and not (isinstance(b, ast.Assign) and ast.dump(b.value) == ast.dump(a.value))]
                    if not later:
                        continue
                out[name] = max(out.get(name, 0), depth)
    return out


def lost_reset(repo, modules, baseline):
    """A variable that the recorded tree re-initialises inside a loop (per-iteration state: a flag, a statement
    block, a list collected for one item) is now initialised only outside it: what one item sets is still set
    for the items after it."""
    out, n = [], 0
    for mn in modules:
        m = repo.module(mn)
        for q, fn in m.functions().items():
            want = baseline.get("%s.%s" % (mn, q))
            if not want:
                continue
            have = reset_depths(fn)
            for name, depth in sorted(want.items()):
                if name not in have:
                    continue          # the variable is gone or no longer reset anywhere: nothing to compare
                n += 1
                if have[name] < depth:
                    node = [a for a in ast.walk(fn) if isinstance(a, ast.Assign) and len(a.targets) == 1
                            and isinstance(a.targets[0], ast.Name) and a.targets[0].id == name and _is_reset_value(a.value)][0]
                    out.append((mn, q, node, "`%s` was re-initialised in the loop for every item (nesting depth %d); it is now "
                                "initialised at depth %d only: the value one item leaves behind is seen by the items after it"
                                % (name, depth, have[name])))
    return out, n


def container_flag_in_element_loop(repo, modules, attrs=("wrap",)):
    """`for x in node.classes: if not node.wrap.c: continue` - inside a loop over the children of N, a test reads
    N.wrap.* (or N.options.* when asked): the test is the same for every child, so it cannot be the per-child
    selection the loop body is written for; the sibling emitters test the child (`x.wrap.c`)."""
    out, n = [], 0
    for mn in modules:
        m = repo.module(mn)
        for q, fn in m.functions().items():
            for lp in ast.walk(fn):
                if not (isinstance(lp, ast.For) and isinstance(lp.target, ast.Name) and isinstance(lp.iter, ast.Attribute)
                        and isinstance(lp.iter.value, ast.Name)):
                    continue
                cont, child = lp.iter.value.id, lp.target.id
                if cont in ("self",):
                    continue
                if cont == child:
                    continue   # `for node in node.enums`: inside the loop the name is the child
                aliases = {}
                for st in ast.walk(fn):
                    if isinstance(st, ast.Assign) and len(st.targets) == 1 and isinstance(st.targets[0], ast.Name) \
                            and isinstance(st.value, ast.Attribute) and isinstance(st.value.value, ast.Name) \
                            and st.value.value.id == cont and st.value.attr in attrs and st.lineno < lp.end_lineno:
                        aliases[st.targets[0].id] = st
                # a name that is bound more than once in the function is not an alias of the container's table throughout
                for nm in list(aliases):
                    binds = [b for b in ast.walk(fn) if isinstance(b, ast.Assign) and any(pyflow.is_name(t_, nm) for t_ in b.targets)]
                    if len(binds) != 1:
                        inside = [b for b in binds if lp.lineno <= b.lineno <= lp.end_lineno]
                        if not (len(inside) == 1 and inside[0] is aliases[nm]):
                            del aliases[nm]
                for t in ast.walk(lp):
                    if not isinstance(t, (ast.If, ast.IfExp)):
                        continue
                    n += 1
                    reads_child = any(isinstance(x, ast.Name) and x.id == child for x in ast.walk(t.test))
                    for x in ast.walk(t.test):
                        hit = None
                        if isinstance(x, ast.Attribute) and isinstance(x.value, ast.Attribute) and isinstance(x.value.value, ast.Name) \
                                and x.value.value.id == cont and x.value.attr in attrs:
                            hit = "%s.%s.%s" % (cont, x.value.attr, x.attr)
                        elif isinstance(x, ast.Attribute) and isinstance(x.value, ast.Name) and x.value.id in aliases:
                            hit = "%s.%s (= %s.%s)" % (x.value.id, x.attr, cont, aliases[x.value.id].value.attr)
                        if hit:
                            out.append((mn, q, t, "inside `for %s in %s.%s` the test reads %s, which is the same for every %s%s"
                                        % (child, cont, lp.iter.attr, hit, child,
                                           "; the loop body decides about `%s`" % child if reads_child else "")))
                            break
    return out, n


def partial_field_update(repo, modules, ratio=0.75):
    """A method of a record-like class assigns most, but not all, of the fields its constructor defines, all in the
    same way (`self.f = False`, `self.f = f`, `self.f = self.f or other.f`): the field that is left out keeps its
    old value (a reset that does not reset, a copy that does not copy)."""
    out, n = [], 0
    for mn in modules:
        m = repo.module(mn)
        for cls in [c for c in ast.walk(m.tree) if isinstance(c, ast.ClassDef)]:
            init = [f for f in cls.body if isinstance(f, ast.FunctionDef) and f.name == "__init__"]
            if not init:
                continue
            fields = []
            for a in init[0].body:
                if isinstance(a, ast.Assign) and len(a.targets) == 1 and isinstance(a.targets[0], ast.Attribute) \
                        and isinstance(a.targets[0].value, ast.Name) and a.targets[0].value.id == "self":
                    fields.append(a.targets[0].attr)
            if len(fields) < 3 or len(fields) != len(init[0].body) - (1 if ast.get_docstring(init[0]) else 0):
                continue        # not a plain record
            for f in cls.body:
                if not isinstance(f, ast.FunctionDef) or f.name == "__init__":
                    continue
                sets, shapes = [], set()
                for a in f.body:
                    if isinstance(a, ast.Assign) and len(a.targets) == 1 and isinstance(a.targets[0], ast.Attribute) \
                            and isinstance(a.targets[0].value, ast.Name) and a.targets[0].value.id == "self":
                        fld = a.targets[0].attr
                        sets.append(fld)
                        shapes.add(ast.dump(a.value).replace(repr(fld), "'@'").replace("'%s'" % fld, "'@'"))
                if len(sets) < 2:
                    continue
                n += 1
                missing = [x for x in fields if x not in sets]
                if missing and len(set(sets)) >= ratio * len(fields) and len(shapes) == 1:
                    out.append((mn, "%s.%s" % (cls.name, f.name), f,
                                "%s.%s() assigns %s in one and the same way but leaves out %s, which __init__ defines next to them"
                                % (cls.name, f.name, sorted(set(sets)), missing)))
    return out, n


def flag_read_after_clear(repo, modules, attr="wrap"):
    """`N.wrap.c = False` (on some path) and later in the same function `... = N.wrap.c` / `f(c=N.wrap.c)`: the value
    handed on is the one the function itself has just switched off, not the one the declaration was given."""
    out, n = [], 0
    for mn in modules:
        m = repo.module(mn)
        for q, fn in m.functions().items():
            clears = {}
            for a in ast.walk(fn):
                if isinstance(a, ast.Assign) and len(a.targets) == 1 and isinstance(a.targets[0], ast.Attribute) \
                        and isinstance(a.targets[0].value, ast.Attribute) and a.targets[0].value.attr == attr \
                        and isinstance(a.value, ast.Constant) and a.value.value is False:
                    key = ast.unparse(a.targets[0])
                    clears.setdefault(key, []).append(a)
            if not clears:
                continue
            for x in ast.walk(fn):
                if isinstance(x, ast.Attribute) and isinstance(x.ctx, ast.Load) and ast.unparse(x) in clears:
                    n += 1
                    first = min(c.lineno for c in clears[ast.unparse(x)])
                    # a test of the flag is fine (it asks what the state is now); handing the value on is not
                    par = getattr(x, "_parent", None)
                    in_test = False
                    p, child = par, x
                    while p is not None and not isinstance(p, (ast.stmt,)):
                        if isinstance(p, (ast.IfExp,)) and child is p.test:
                            in_test = True
                        child, p = p, getattr(p, "_parent", None)
                    if isinstance(p, (ast.If, ast.While)) and any(child is y or any(child is z for z in ast.walk(y)) for y in [p.test]):
                        in_test = True
                    if x.lineno > first and not in_test:
                        out.append((mn, q, x, "`%s` is read at line %d after the function set it to False at line %d: the value "
                                    "passed on is the switched-off flag" % (ast.unparse(x), x.lineno, first)))
    return out, n


def mixed_indirection_predicates(repo, modules):
    """One function asks the same declaration both `is_indirect()` (pointer or reference) and `is_pointer()` alone:
    the second test treats a C++ reference as a value although the first says the function cares about both."""
    out, n = [], 0
    for mn in modules:
        m = repo.module(mn)
        for q, fn in m.functions().items():
            uses = {}
            for c in ast.walk(fn):
                if isinstance(c, ast.Call) and isinstance(c.func, ast.Attribute) \
                        and c.func.attr in ("is_pointer", "is_indirect", "is_reference"):
                    uses.setdefault(ast.unparse(c.func.value), {}).setdefault(c.func.attr, []).append(c)
            for recv, by in uses.items():
                n += 1
                if "is_indirect" in by and ("is_pointer" in by) != ("is_reference" in by):
                    odd = by.get("is_pointer") or by.get("is_reference")
                    out.append((mn, q, odd[0], "`%s.%s()` next to `%s.is_indirect()` in the same function: a %s is not "
                                "covered by this test" % (recv, odd[0].func.attr, recv,
                                                          "reference" if "is_pointer" in by else "pointer")))
    return out, n


def validation_skips_falsy(repo, modules):
    """`if x and not isinstance(x, dict): raise ...` - the type check of a user-supplied value is skipped for every
    falsy value, so `[]`, `''`, `0`, `False` of the wrong type pass the validation and fail later, inside the
    generator (only None means "not given")."""
    out, n = [], 0
    for mn in modules:
        m = repo.module(mn)
        for q, fn in m.functions().items():
            for i in ast.walk(fn):
                if not isinstance(i, ast.If):
                    continue
                if not any(isinstance(x, ast.Raise) for st in i.body for x in ast.walk(st)):
                    continue
                t = i.test
                if not (isinstance(t, ast.BoolOp) and isinstance(t.op, ast.And)):
                    continue
                names = [v.id for v in t.values if isinstance(v, ast.Name)]
                for v in t.values:
                    if isinstance(v, ast.UnaryOp) and isinstance(v.op, ast.Not) and isinstance(v.operand, ast.Call) \
                            and isinstance(v.operand.func, ast.Name) and v.operand.func.id == "isinstance" and v.operand.args \
                            and isinstance(v.operand.args[0], ast.Name):
                        n += 1
                        if v.operand.args[0].id in names:
                            out.append((mn, q, i, "`%s`: the isinstance check is skipped for falsy values of `%s` (an empty list, "
                                        "'', 0, False are not None)" % (ast.unparse(t), v.operand.args[0].id)))
    return out, n


def memoised_scope_field(repo, modules, documented):
    """`if not scope.inlocal("f"): scope.f = <computed>` for a field no user can set (it is not a documented format
    field): the only way the field can already be there is an earlier call with the same scope, so the guard is a
    cache - the second overload / variant / declaration that shares the scope gets the first one's value."""
    out, n = [], 0
    for mn in modules:
        m = repo.module(mn)
        for q, fn in m.functions().items():
            for i in ast.walk(fn):
                if not isinstance(i, ast.If):
                    continue
                t, body = i.test, i.body
                if isinstance(t, ast.UnaryOp) and isinstance(t.op, ast.Not):
                    t = t.operand
                else:
                    t, body = t, i.orelse
                if not (isinstance(t, ast.Call) and isinstance(t.func, ast.Attribute) and t.func.attr == "inlocal" and t.args
                        and isinstance(t.args[0], ast.Constant) and isinstance(t.args[0].value, str)):
                    continue
                field, scope = t.args[0].value, ast.unparse(t.func.value)
                sets = [a for st in body for a in ast.walk(st) if isinstance(a, ast.Assign) and isinstance(a.targets[0], ast.Attribute)
                        and a.targets[0].attr == field and ast.unparse(a.targets[0].value) == scope]
                if not sets:
                    continue
                n += 1
                if field not in documented:
                    out.append((mn, q, i, "`%s.%s` is computed only when the scope does not have it yet, but `%s` is not a "
                                "documented format field, so only an earlier call can have set it: later variants that share "
                                "`%s` reuse the first one's value" % (scope, field, field, scope)))
    return out, n


def source_mutated_in_clone_loop(repo, modules):
    """`for t in variants: new = node.clone()` with a statement in the same loop that changes `node` itself
    (`node.fmtdict.update(...)`, `node.fmtdict.x = ...`): what is meant for one clone is inherited by every clone
    made after it."""
    out, n = [], 0
    for mn in modules:
        m = repo.module(mn)
        for q, fn in m.functions().items():
            for lp in ast.walk(fn):
                if not isinstance(lp, (ast.For, ast.While)):
                    continue
                srcs = set()
                for a in ast.walk(lp):
                    if isinstance(a, ast.Assign) and isinstance(a.value, ast.Call) and isinstance(a.value.func, ast.Attribute) \
                            and a.value.func.attr == "clone" and isinstance(a.value.func.value, ast.Name):
                        srcs.add(a.value.func.value.id)
                for src in srcs:
                    n += 1
                    for st in ast.walk(lp):
                        hit = None
                        if isinstance(st, ast.Call) and isinstance(st.func, ast.Attribute) and st.func.attr in ("update", "append", "extend", "setdefault"):
                            base = st.func.value
                            if isinstance(base, ast.Attribute) and isinstance(base.value, ast.Name) and base.value.id == src \
                                    and base.attr in ("fmtdict", "options", "user_fmt"):
                                hit = st
                        elif isinstance(st, ast.Assign):
                            for t in st.targets:
                                if isinstance(t, ast.Attribute) and isinstance(t.value, ast.Attribute) and isinstance(t.value.value, ast.Name) \
                                        and t.value.value.id == src and t.value.attr in ("fmtdict", "options"):
                                    hit = st
                        if hit is not None:
                            out.append((mn, q, hit, "`%s` changes `%s`, the node every iteration of this loop clones: the setting of one "
                                        "instantiation/variant is inherited by all clones made after it"
                                        % (" ".join(ast.unparse(hit).split())[:60], src)))
    return out, n


def copy_shares_state(repo, modules):
    """A method that hands out a *new* object made from `self` (it says so: it creates one and returns it) must not
    hand out `self` itself, and must not give the new object `self`'s own dictionaries:
      `new = self` ... `new.set_type(t)`; `return new`      - the original is changed and every later copy sees it;
      `new.attrs = self.attrs` next to `new.metaattrs = copy.deepcopy(self.metaattrs)` - deleting a key from the copy
      deletes it from the original."""
    out, n = [], 0
    for mn in modules:
        m = repo.module(mn)
        for cls in [c for c in ast.walk(m.tree) if isinstance(c, ast.ClassDef)]:
            init = [f for f in cls.body if isinstance(f, ast.FunctionDef) and f.name == "__init__"]
            dicts = set()
            if init:
                for a in ast.walk(init[0]):
                    if isinstance(a, ast.Assign) and isinstance(a.targets[0], ast.Attribute) and isinstance(a.targets[0].value, ast.Name) \
                            and a.targets[0].value.id == "self":
                        v = a.value
                        if isinstance(v, ast.Dict) or (isinstance(v, ast.Call) and ast.unparse(v.func).split(".")[-1]
                                                       in ("dict", "defaultdict", "OrderedDict")):
                            dicts.add(a.targets[0].attr)
            for f in cls.body:
                if not isinstance(f, ast.FunctionDef) or f.name == "__init__":
                    continue
                rets = [r.value.id for r in ast.walk(f) if isinstance(r, ast.Return) and isinstance(r.value, ast.Name)]
                for v in set(rets):
                    made = [a for a in ast.walk(f) if isinstance(a, ast.Assign) and len(a.targets) == 1
                            and isinstance(a.targets[0], ast.Name) and a.targets[0].id == v]
                    if len(made) != 1:
                        continue
                    src = made[0].value
                    is_self = isinstance(src, ast.Name) and src.id == "self"
                    is_new = isinstance(src, ast.Call) and (ast.unparse(src.func) in ("copy.copy", "copy.deepcopy", cls.name)
                                                            or ast.unparse(src.func).endswith(".clone"))
                    if not (is_self or is_new):
                        continue
                    n += 1
                    writes = [s for s in ast.walk(f) if (isinstance(s, ast.Assign) and any(
                        isinstance(t, (ast.Attribute, ast.Subscript)) and ast.unparse(t).startswith(v + ".") for t in s.targets))
                        or (isinstance(s, ast.Expr) and isinstance(s.value, ast.Call) and isinstance(s.value.func, ast.Attribute)
                            and isinstance(s.value.func.value, ast.Name) and s.value.func.value.id == v
                            and s.value.func.attr.startswith(("set_", "update", "append", "add_")))]
                    doc = (ast.get_docstring(f) or "").lower()
                    if is_self and writes and ("copy" in doc or "new" in doc):
                        out.append((mn, "%s.%s" % (cls.name, f.name), made[0],
                                    "`%s = self` is then changed (`%s`) and returned as the \"new\" object: the original is modified, "
                                    "and every object derived from it afterwards starts from the changed state"
                                    % (v, ast.unparse(writes[0])[:40])))
                    if is_new:
                        deep = [s for s in ast.walk(f) if isinstance(s, ast.Assign) and isinstance(s.targets[0], ast.Attribute)
                                and ast.unparse(s.targets[0].value) == v and isinstance(s.value, ast.Call)
                                and ast.unparse(s.value.func) in ("copy.deepcopy", "copy.copy")]
                        for s in ast.walk(f):
                            if isinstance(s, ast.Assign) and isinstance(s.targets[0], ast.Attribute) and ast.unparse(s.targets[0].value) == v \
                                    and isinstance(s.value, ast.Attribute) and isinstance(s.value.value, ast.Name) \
                                    and s.value.value.id == "self" and s.value.attr == s.targets[0].attr \
                                    and s.targets[0].attr in dicts and deep:
                                out.append((mn, "%s.%s" % (cls.name, f.name), s,
                                            "`%s` gives the new object the dictionary of the original (the sibling field `%s` is "
                                            "copied): removing or changing an entry through one changes the other"
                                            % (ast.unparse(s), ast.unparse(deep[0].targets[0]))))
                        # children: a loop over self.<kids> that builds the list for new.<kids> appends a copy of each
                        # child on some path and the child itself on another
                        for lp in ast.walk(f):
                            if not (isinstance(lp, ast.For) and isinstance(lp.target, ast.Name) and isinstance(lp.iter, ast.Attribute)
                                    and pyflow.is_name(lp.iter.value, "self")):
                                continue
                            kid = lp.target.id
                            apps = [c for c in ast.walk(lp) if isinstance(c, ast.Call) and isinstance(c.func, ast.Attribute)
                                    and c.func.attr == "append" and len(c.args) == 1 and isinstance(c.args[0], ast.Name)]
                            copies = set(a.targets[0].id for a in ast.walk(lp) if isinstance(a, ast.Assign) and isinstance(a.targets[0], ast.Name)
                                         and isinstance(a.value, ast.Call) and (ast.unparse(a.value.func).endswith(".clone")
                                                                                or ast.unparse(a.value.func) in ("copy.copy", "copy.deepcopy")))
                            if not copies or not any(c.args[0].id in copies for c in apps):
                                continue
                            for c in apps:
                                if c.args[0].id == kid:
                                    out.append((mn, "%s.%s" % (cls.name, f.name), c,
                                                "`%s`: the new object gets the original's own `%s` entry where the other path gives it a copy "
                                                "(`%s`): what is done to the child of one copy (renaming, re-parenting) is done to all"
                                                % (ast.unparse(c), lp.iter.attr, sorted(copies)[0])))
    return out, n


_MUTATORS = ("append", "extend", "update", "add", "insert", "setdefault", "pop", "remove", "clear")


def _attr_mutations(repo, modules, attr, owner=None, _depth=0):
    """sites that change the container held in attribute `attr` of some object: x.attr.append(..), x.attr[k] = v
    (also through an attribute that was bound to it: `self.b = cfg.attr` ... `self.b.update(..)`).  A site whose
    receiver was constructed in the same function from a class other than `owner` is about another class's attribute
    of the same name."""
    out = []
    for mn in modules:
        m = repo.module(mn)
        for q, fn in m.functions().items():
            other = set()
            for a in ast.walk(fn):
                if isinstance(a, ast.Assign) and isinstance(a.targets[0], ast.Name) and isinstance(a.value, ast.Call) \
                        and isinstance(a.value.func, ast.Name) and a.value.func.id[:1].isupper() and a.value.func.id != owner:
                    other.add(a.targets[0].id)
                if _depth == 0 and isinstance(a, ast.Assign) and isinstance(a.targets[0], ast.Attribute) \
                        and isinstance(a.value, ast.Attribute) and a.value.attr == attr and a.targets[0].attr != attr:
                    out.extend(_attr_mutations(repo, modules, a.targets[0].attr, owner, 1))
            # a local name bound to the container (`order = self.attr` ... `order.extend(..)`)
            local = set()
            for a in ast.walk(fn):
                if isinstance(a, ast.Assign) and len(a.targets) == 1 and isinstance(a.targets[0], ast.Name) and \
                        isinstance(a.value, ast.Attribute) and a.value.attr == attr and \
                        not (isinstance(a.value.value, ast.Name) and a.value.value.id in other):
                    local.add(a.targets[0].id)
            for s in ast.walk(fn):
                if local and isinstance(s, ast.Call) and isinstance(s.func, ast.Attribute) and s.func.attr in _MUTATORS \
                        and isinstance(s.func.value, ast.Name) and s.func.value.id in local:
                    # the name must not be re-bound to a fresh container on another path only: any other binding
                    # of the name is a copy or a literal
                    binds = [a for a in ast.walk(fn) if isinstance(a, ast.Assign) and any(pyflow.is_name(t, s.func.value.id) for t in a.targets)]
                    if any(isinstance(a.value, ast.Attribute) and a.value.attr == attr for a in binds):
                        out.append((mn, q, s))
            for s in ast.walk(fn):
                recv = None
                if isinstance(s, ast.Call) and isinstance(s.func, ast.Attribute) and isinstance(s.func.value, ast.Attribute):
                    recv = s.func.value.value
                elif isinstance(s, (ast.Assign, ast.AugAssign)):
                    for t in (s.targets if isinstance(s, ast.Assign) else [s.target]):
                        if isinstance(t, ast.Subscript) and isinstance(t.value, ast.Attribute):
                            recv = t.value.value
                if isinstance(recv, ast.Name) and recv.id in other:
                    continue
                if isinstance(s, ast.Call) and isinstance(s.func, ast.Attribute) and s.func.attr in _MUTATORS \
                        and isinstance(s.func.value, ast.Attribute) and s.func.value.attr == attr:
                    out.append((mn, q, s))
                elif isinstance(s, (ast.Assign, ast.AugAssign)):
                    for t in (s.targets if isinstance(s, ast.Assign) else [s.target]):
                        if isinstance(t, ast.Subscript) and isinstance(t.value, ast.Attribute) and t.value.attr == attr:
                            out.append((mn, q, s))
    return out


def shared_mutable_containers(repo, modules):
    """Containers that outlive one object although the code treats them as per-object:
      * a class-level `x = {}` / `[]` that is changed through instances and never re-bound in __init__;
      * a mutable default argument (`def __init__(self, base=[])`) stored in an attribute that is later changed.
    In a process that wraps several libraries (or one library twice) the second run starts with what the first left."""
    out, n = [], 0
    for mn in modules:
        m = repo.module(mn)
        for cls in [c for c in ast.walk(m.tree) if isinstance(c, ast.ClassDef)]:
            init = [f for f in cls.body if isinstance(f, ast.FunctionDef) and f.name == "__init__"]
            rebound = set()
            for f in cls.body:
                if isinstance(f, ast.FunctionDef):
                    for a in ast.walk(f):
                        if isinstance(a, ast.Assign):
                            for t in a.targets:
                                if isinstance(t, ast.Attribute) and isinstance(t.value, ast.Name) and t.value.id == "self":
                                    rebound.add(t.attr)
            for st in cls.body:
                if isinstance(st, ast.Assign) and len(st.targets) == 1 and isinstance(st.targets[0], ast.Name) \
                        and (isinstance(st.value, (ast.Dict, ast.List, ast.Set)) or (
                            isinstance(st.value, ast.Call) and ast.unparse(st.value.func).split(".")[-1]
                            in ("dict", "list", "set", "OrderedDict", "defaultdict"))):
                    name = st.targets[0].id
                    n += 1
                    if name in rebound:
                        continue
                    muts = _attr_mutations(repo, modules, name, cls.name)
                    if muts:
                        mn2, q2, s2 = muts[0]
                        out.append((mn, cls.name, st, "`%s.%s` is one container for all instances (it is never re-bound in a method) and "
                                    "is changed through instances (%s.%s: `%s`): a second run in the same process starts with the "
                                    "first run's entries" % (cls.name, name, mn2, q2, ast.unparse(s2)[:50])))
            if init:
                f = init[0]
                args = f.args.args
                defaults = [None] * (len(args) - len(f.args.defaults)) + list(f.args.defaults)
                for a, d in zip(args, defaults):
                    if not isinstance(d, (ast.List, ast.Dict, ast.Set)):
                        continue
                    n += 1
                    stored = [s.targets[0].attr for s in ast.walk(f) if isinstance(s, ast.Assign) and isinstance(s.targets[0], ast.Attribute)
                              and isinstance(s.value, ast.Name) and s.value.id == a.arg]
                    for attr in stored:
                        muts = _attr_mutations(repo, modules, attr, cls.name)
                        if muts:
                            mn2, q2, s2 = muts[0]
                            out.append((mn, "%s.__init__" % cls.name, d, "the default `%s=%s` is one object for all calls; it is stored in "
                                        "`self.%s`, which %s.%s changes (`%s`): every node created with the default shares the "
                                        "change, also across runs" % (a.arg, ast.unparse(d), attr, mn2, q2, ast.unparse(s2)[:50])))
    return out, n


def scope_from_other_key(repo, modules):
    """`fmt.C_name_scope = parent.fmtdict.F_name_scope + ...`: a scope prefix of one language built from the parent's
    scope prefix of another.  The prefixes differ as soon as a namespace is flattened for one language only or the
    name is lower-cased (F_name_scope is): names of two classes in different namespaces coincide."""
    import re
    out, n = [], 0
    for mn in modules:
        m = repo.module(mn)
        for q, fn in m.functions().items():
            for a in ast.walk(fn):
                if isinstance(a, ast.Assign) and len(a.targets) == 1 and isinstance(a.targets[0], ast.Attribute) \
                        and a.targets[0].attr.endswith("_scope"):
                    key = a.targets[0].attr
                elif isinstance(a, ast.keyword) and a.arg and a.arg.endswith("_scope"):
                    key = a.arg          # Scope(..., C_name_scope=...) / dict(C_name_scope=...)
                else:
                    continue
                srcs = [x.attr for x in ast.walk(a.value) if isinstance(x, ast.Attribute) and x.attr.endswith("_scope")
                        and ("parent" in ast.unparse(x) or "fmtdict" in ast.unparse(x))]
                if not srcs:
                    continue
                n += 1
                other = [k for k in srcs if k != key and re.match(r"^[A-Z]+_", k) and re.match(r"^[A-Z]+_", key)
                         and k.split("_", 1)[1] == key.split("_", 1)[1]]
                if other:
                    out.append((mn, q, a, "`%s` is computed from `%s` of the enclosing scope: the %s prefix of a class in a "
                                "namespace no longer carries the namespace the way the %s names need it"
                                % (key, other[0], key.split("_")[0], key.split("_")[0])))
    return out, n


def language_spelling(repo, modules):
    """The library's language is normalised once (`"c++"` becomes `"cxx"` in LibraryNode.__init__); after that a
    comparison of a language value with "c++" is never true."""
    out, n = [], 0
    for mn in modules:
        m = repo.module(mn)
        for q, fn in m.functions().items():
            if q.endswith("LibraryNode.__init__"):
                continue
            for c in ast.walk(fn):
                if isinstance(c, ast.Compare) and len(c.ops) == 1 and isinstance(c.ops[0], (ast.Eq, ast.NotEq, ast.In, ast.NotIn)):
                    sides = [c.left] + c.comparators
                    names = [ast.unparse(s) for s in sides if isinstance(s, (ast.Name, ast.Attribute))]
                    if not any(x.split(".")[-1] in ("language", "lang") for x in names):
                        continue
                    n += 1
                    lits = [x.value for s in sides for x in ast.walk(s) if isinstance(x, ast.Constant) and isinstance(x.value, str)]
                    if "c++" in lits and not any("args." in x for x in names):
                        out.append((mn, q, c, "`%s`: inside the generator the language is \"c\" or \"cxx\" (LibraryNode.__init__ "
                                    "rewrites \"c++\"), so this test never holds for a C++ library" % ast.unparse(c)))
    return out, n


def write_only_key(repo, modules, receivers=("meta", "metaattrs", "c_meta", "f_meta", "attrs", "c_attrs", "f_attrs")):
    """`meta["value"] = True` where no code ever reads "value" from a metaattrs mapping (it is read from `attrs`):
    a key stored in the wrong one of two parallel dictionaries is a value nobody sees."""
    def kind(recv):
        r = recv.split(".")[-1]
        if r in ("meta", "metaattrs", "c_meta", "f_meta"):
            return "meta"
        if r in ("attrs", "c_attrs", "f_attrs"):
            return "attrs"
        return None
    # a parameter is what its callers pass: `def check_dimension(dim, attrs)` called with `metaattrs`
    passed = {}
    for mn in modules:
        m = repo.module(mn)
        for q, fn in m.functions().items():
            for c in ast.walk(fn):
                if isinstance(c, ast.Call):
                    cname = c.func.attr if isinstance(c.func, ast.Attribute) else (c.func.id if isinstance(c.func, ast.Name) else None)
                    for i, a in enumerate(c.args):
                        k = kind(ast.unparse(a)) if isinstance(a, (ast.Name, ast.Attribute)) else None
                        if cname and k:
                            passed.setdefault((cname, i), set()).add(k)
    reads, stores = {"meta": set(), "attrs": set()}, []
    n = 0
    for mn in modules:
        m = repo.module(mn)
        for q, fn in m.functions().items():
            params = [a.arg for a in fn.args.args if a.arg != "self"]
            override = {}
            for i, pname in enumerate(params):
                ks = passed.get((fn.name, i))
                if ks and len(ks) == 1 and kind(pname) and kind(pname) not in ks:
                    override[pname] = next(iter(ks))
            def kind_(recv, override=override):
                return override.get(recv, kind(recv))
            for x in ast.walk(fn):
                if isinstance(x, ast.Subscript) and isinstance(x.slice, ast.Constant) and isinstance(x.slice.value, str):
                    k = kind_(ast.unparse(x.value))
                    if k is None:
                        continue
                    if isinstance(x.ctx, ast.Load):
                        reads[k].add(x.slice.value)
                    elif isinstance(x.ctx, ast.Store):
                        stores.append((mn, q, x, k, x.slice.value))
                elif isinstance(x, ast.Call) and isinstance(x.func, ast.Attribute) and x.func.attr in ("get", "pop") and x.args \
                        and isinstance(x.args[0], ast.Constant) and isinstance(x.args[0].value, str):
                    k = kind_(ast.unparse(x.func.value))
                    if k:
                        reads[k].add(x.args[0].value)
                elif isinstance(x, ast.Compare) and isinstance(x.ops[0], (ast.In, ast.NotIn)) and isinstance(x.left, ast.Constant) \
                        and isinstance(x.left.value, str):
                    k = kind_(ast.unparse(x.comparators[0]))
                    if k:
                        reads[k].add(x.left.value)
    out = []
    for mn, q, x, k, key in stores:
        n += 1
        other = "attrs" if k == "meta" else "meta"
        if key not in reads[k] and key in reads[other] and not key.startswith("_"):
            out.append((mn, q, x, "`%s` stores %r in the %s mapping, where nothing ever reads it; the readers of %r look in the "
                        "%s mapping" % (ast.unparse(x), key, "metaattrs" if k == "meta" else "attrs", key,
                                        "attrs" if k == "meta" else "metaattrs")))
    return out, n


def undefined_names(repo, modules):
    """A name that a function reads and that is bound nowhere: not in the function or an enclosing one, not at module
    level, not a builtin.  Reaching the statement raises NameError (`.format(stmts0)` where the variable is `stmt0`).
    Scopes are resolved by the standard `symtable` module (the compiler's own rules, comprehensions and class bodies
    included); a module with `from x import *` is skipped, nothing can be said about its globals."""
    import builtins
    import symtable
    known = set(dir(builtins)) | {"__file__", "__name__", "__doc__", "__builtins__", "__spec__", "__package__"}
    out, n = [], 0
    for mn in modules:
        m = repo.module(mn)
        if any(isinstance(x, ast.ImportFrom) and any(a.name == "*" for a in x.names) for x in ast.walk(m.tree)):
            continue
        top = symtable.symtable(m.source, m.relpath, "exec")
        bound = set(s.get_name() for s in top.get_symbols()
                    if s.is_assigned() or s.is_imported() or s.is_namespace() or s.is_parameter())
        # names a function declares `global` and assigns
        for fn in ast.walk(m.tree):
            if isinstance(fn, ast.Global):
                bound.update(fn.names)
        by_line = {}
        for q, fn in m.functions().items():
            by_line.setdefault(fn.lineno, []).append((q, fn))

        def walk(t):
            nonlocal n
            for c in t.get_children():
                walk(c)
            if t.get_type() != "function":
                return
            for s in t.get_symbols():
                if s.is_referenced() and s.is_global():
                    n += 1
                    name = s.get_name()
                    if name in bound or name in known:
                        continue
                    # the innermost named function that contains a load of this name at/after the table's first line
                    best = None
                    for q, fn in m.functions().items():
                        if fn.lineno <= t.get_lineno() <= (fn.end_lineno or fn.lineno):
                            if best is None or fn.lineno >= best[1].lineno:
                                best = (q, fn)
                    if best is None:
                        continue
                    q, fn = best
                    node = next((x for x in ast.walk(fn) if isinstance(x, ast.Name) and x.id == name
                                 and isinstance(x.ctx, ast.Load)), None)
                    if node is None:
                        continue
                    out.append((mn, q, node, "`%s` is read here but bound nowhere (not a local, not a name of the module, "
                                "not a builtin): the statement raises NameError as soon as an input reaches it" % name))
        walk(top)
    return out, n


def memo_scope_owner_mismatch(repo, modules):
    """`table.setdefault(key, Scope(parent))` keeps the first scope ever stored under the key.  When the table
    belongs to one node (`C_node._fmtargs`) and the parent scope to another (`fmt_func = node.fmtdict`), every later
    caller with a different `node` gets the first caller's scope: its parent chain and every field that is only set
    under a condition.  Owners are followed through plain assignments inside the function; two names are the same
    owner only when one is nothing but an alias of the other."""
    out, n = [], 0
    for mn in modules:
        m = repo.module(mn)
        for q, fn in m.functions().items():
            assigns = {}
            for a in ast.walk(fn):
                if isinstance(a, ast.Assign) and len(a.targets) == 1 and isinstance(a.targets[0], ast.Name):
                    assigns.setdefault(a.targets[0].id, []).append(a.value)

            params = set(a.arg for a in fn.args.args)

            def owner(expr, depth=0, via_attr=False):
                """the node object an expression hangs off (`C_node._fmtargs` -> C_node), or None when the expression
                was not reached through an attribute of a name (a parameter that already is a scope: owner unknown)"""
                while isinstance(expr, (ast.Attribute, ast.Subscript)):
                    via_attr = via_attr or isinstance(expr, ast.Attribute)
                    expr = expr.value
                if isinstance(expr, ast.Call) and isinstance(expr.func, ast.Attribute) and expr.func.attr in ("setdefault", "get"):
                    return owner(expr.func.value, depth, via_attr)
                if isinstance(expr, ast.Name):
                    vals = assigns.get(expr.id, [])
                    if len(vals) == 1 and depth < 6 and expr.id not in params:
                        return owner(vals[0], depth + 1, via_attr)
                    return expr.id if via_attr else None
                return None
            for c in ast.walk(fn):
                if not (isinstance(c, ast.Call) and isinstance(c.func, ast.Attribute) and c.func.attr == "setdefault" and len(c.args) == 2):
                    continue
                v = c.args[1]
                if not (isinstance(v, ast.Call) and (ast.unparse(v.func).endswith("Scope")) and v.args):
                    continue
                n += 1
                o1, o2 = owner(c.func.value), owner(v.args[0])
                if o1 and o2 and o1 != o2 and o1 not in ("self",) and o2 not in ("self",):
                    out.append((mn, q, c, "the table belongs to `%s` and the scope stored in it with setdefault is parented to `%s`: "
                                "every wrapper that shares the same %s after the first one reuses the first one's scope - its parent "
                                "chain and every field that is only set under a condition (rank, size, f_assumed_shape of the "
                                "previous fortran_generic variant)" % (o1, o2, o1)))
    return out, n


def odd_source_in_copy_run(repo, modules):
    """A run of neighbouring assignments copies same-named attributes from one object (`fmt.f_kind = tm.f_kind`,
    `fmt.f_type = tm.f_type`, ...) or folds same-named attributes of two objects (`self.c = self.c or w.c`, ...).
    One statement of the run that takes the attribute of that name from *another* object, or an attribute of
    another name from the same object, is the odd one out (`fmt.sh_type = c_ast.typemap.sh_type`,
    `self.c = self.c or w.c_f`)."""
    out, n = [], 0

    def kind_word(expr_text):
        return re.split(r"[._]", expr_text)[-1]

    def shape(st):
        """(target base, attribute, kind, source base, source attribute) for `T.a = S.b` / `T.a = T.a or S.b`
        (also when the statement is the whole body of an `if` without else: a guarded copy)"""
        if isinstance(st, ast.If) and not st.orelse and len(st.body) == 1:
            st = st.body[0]
        if not (isinstance(st, ast.Assign) and len(st.targets) == 1 and isinstance(st.targets[0], ast.Attribute)):
            return None
        t = st.targets[0]
        tb, ta = ast.unparse(t.value), t.attr
        v = st.value
        if isinstance(v, ast.Attribute):
            return tb, ta, "copy", ast.unparse(v.value), v.attr
        if isinstance(v, ast.BoolOp) and len(v.values) == 2 and all(isinstance(x, ast.Attribute) for x in v.values):
            a, b = v.values
            if ast.unparse(a.value) == tb and a.attr == ta:
                return tb, ta, "fold-" + type(v.op).__name__, ast.unparse(b.value), b.attr
        return None
    for mn in modules:
        m = repo.module(mn)
        for q, fn in m.functions().items():
            for node in ast.walk(fn):
                for field in ("body", "orelse", "finalbody"):
                    lst = getattr(node, field, None)
                    if not isinstance(lst, list) or len(lst) < 3:
                        continue
                    run_ = []
                    for st in lst + [None]:
                        sh = shape(st) if st is not None else None
                        if sh and (not run_ or (run_[-1][1][0] == sh[0] and run_[-1][1][2] == sh[2])):
                            run_.append((st, sh))
                            continue
                        if len(run_) >= 3:
                            n += 1
                            same = [x for x in run_ if x[1][1] == x[1][4]]         # T.a <- S.a
                            srcs = {}
                            for st2, sh2 in same:
                                srcs.setdefault(sh2[3], []).append(st2)
                            major = max(srcs, key=lambda k: len(srcs[k])) if srcs else None
                            if major is not None and len(srcs[major]) >= 2 and len(srcs[major]) >= len(run_) - 1:
                                for st2, sh2 in run_:
                                    if isinstance(st2, ast.If):
                                        st2 = st2.body[0]
                                    if sh2[3] == major and sh2[1] != sh2[4] and sh2[2].startswith("fold"):
                                        out.append((mn, q, st2, "`%s`: the neighbouring statements take `%s.<same name>`; this one takes "
                                                    "`.%s` for `.%s`" % (ast.unparse(st2), major, sh2[4], sh2[1])))
                                    elif sh2[3] != major and sh2[1] == sh2[4] and (
                                            kind_word(sh2[3]).endswith(kind_word(major)) or kind_word(major).endswith(kind_word(sh2[3]))):
                                        # another object of the same kind (`c_ast.typemap` next to `ntypemap`)
                                        out.append((mn, q, st2, "`%s`: the neighbouring statements copy their attributes from `%s`; this "
                                                    "one takes `.%s` from `%s`" % (ast.unparse(st2), major, sh2[4], sh2[3])))
                        run_ = [(st, sh)] if sh else []
    return out, n


def sibling_assignments_diverge(repo, modules):
    """Three or more assignments of one function give the same value to sibling fields (`X.CXX_this_call`,
    `X.LUA_this_call`, `X.PY_this_call` = ns.namespace_scope).  They describe one fact for several wrappers, so
    they hold under the same conditions; one of them under a condition of its own is the odd one out."""
    out, n = [], 0
    for mn in modules:
        m = repo.module(mn)
        for q, fn in m.functions().items():
            groups = {}
            for a in ast.walk(fn):
                if isinstance(a, ast.Assign) and len(a.targets) == 1 and isinstance(a.targets[0], ast.Attribute) and \
                        isinstance(a.value, (ast.Attribute, ast.Name)):
                    t = a.targets[0]
                    if "_" not in t.attr:
                        continue
                    suffix = t.attr.split("_", 1)[1]
                    groups.setdefault((ast.unparse(t.value), suffix, ast.unparse(a.value)), []).append(a)
            for (base, suffix, rhs), lst in groups.items():
                if len(lst) < 3 or len(set(a.targets[0].attr for a in lst)) < 3:
                    continue
                n += 1
                conds = [frozenset(pyflow.path_atoms(a, stop=fn, seg=ast.unparse)) for a in lst]
                common = max(set(conds), key=conds.count)
                if conds.count(common) < len(lst) - 1:
                    continue
                for a, c in zip(lst, conds):
                    if c != common:
                        out.append((mn, q, a, "`%s` is assigned under %s while its siblings (%s) are assigned %s: the same fact "
                                    "is recorded for the other wrappers but not for this one on the remaining paths"
                                    % (ast.unparse(a), sorted(c - common) or "fewer conditions",
                                       ", ".join(x.targets[0].attr for x in lst if x is not a),
                                       "under %s" % sorted(common) if common else "unconditionally")))
    return out, n


def break_after_membership_match(repo, modules):
    """`for x in xs: if key(x) in table: ...; break` - the test is a membership test in a table that can hold
    several of the keys, the body applies the table's entry to the item: leaving the loop after the first match
    skips the other entries.  (An equality test against one wanted value is a search and may stop.)"""
    out, n = [], 0
    for mn in modules:
        m = repo.module(mn)
        for q, fn in m.functions().items():
            for lp in ast.walk(fn):
                if not isinstance(lp, ast.For):
                    continue
                for i in lp.body:
                    if not (isinstance(i, ast.If) and isinstance(i.test, ast.Compare) and len(i.test.ops) == 1
                            and isinstance(i.test.ops[0], ast.In) and not i.orelse):
                        continue
                    n += 1
                    table = i.test.comparators[0]
                    if not isinstance(table, ast.Name):
                        continue
                    # the body uses table[key] (applies the entry) and ends with break
                    uses = any(isinstance(x, ast.Subscript) and pyflow.is_name(x.value, table.id) for st in i.body for x in ast.walk(st))
                    if uses and i.body and isinstance(i.body[-1], ast.Break):
                        # the table is not consumed
                        consumed = any(isinstance(c, ast.Call) and isinstance(c.func, ast.Attribute) and c.func.attr in ("pop", "remove")
                                       and pyflow.is_name(c.func.value, table.id) for c in ast.walk(lp))
                        if not consumed:
                            out.append((mn, q, i.body[-1], "the loop applies `%s[...]` to every item whose key is in `%s` and stops after "
                                        "the first one: the other entries of `%s` are never applied" % (table.id, table.id, table.id)))
    return out, n


def paired_key_writes(repo, modules):
    """Two dictionaries of one object that are kept in step (`attrs[k]` the user's view, `metaattrs[k]` the value the
    wrappers read): where a function writes the same key to both in one branch, a branch that writes it to only one
    of them leaves the other with the old value."""
    out, n = [], 0
    for mn in modules:
        m = repo.module(mn)
        for q, fn in m.functions().items():
            lists = []
            for node in ast.walk(fn):
                for field in ("body", "orelse"):
                    lst = getattr(node, field, None)
                    if isinstance(lst, list):
                        lists.append(lst)
            writes = []
            for lst in lists:
                w = {}
                for st in lst:
                    if isinstance(st, ast.Assign) and len(st.targets) == 1 and isinstance(st.targets[0], ast.Subscript) and \
                            isinstance(st.targets[0].value, ast.Name) and pyflow.const_str(st.targets[0].slice):
                        w.setdefault(pyflow.const_str(st.targets[0].slice), {})[st.targets[0].value.id] = st
                writes.append(w)
            pairs = set()
            for w in writes:
                for k, d in w.items():
                    if len(d) == 2:
                        pairs.add((k, frozenset(d)))
            for k, names in pairs:
                n += 1
                for w in writes:
                    d = w.get(k, {})
                    if len(d) == 1 and set(d) < set(names):
                        other = list(set(names) - set(d))[0]
                        st = list(d.values())[0]
                        if any(isinstance(x, ast.Subscript) and pyflow.is_name(x.value, other) and pyflow.const_str(x.slice) == k
                               for x in ast.walk(st.value)):
                            continue        # copied from the other one: they agree
                        out.append((mn, q, st, "`%s`: elsewhere in this function `%s[%r]` and `%s[%r]` are written together; here only "
                                    "one of them is, the other keeps its old value" % (ast.unparse(st), list(d)[0], k, other, k)))
    return out, n


def format_before_inputs(repo, modules):
    """`fmt.X = wformat(options.T_template, fmt)` is evaluated, and later in the same block a field that the default
    of T_template uses is assigned on the same scope: the name was built from the value the field had before."""
    out, n = [], 0
    am = repo.module("ast")
    defaults = {}
    for key, val in pyflow.table_fields(am.tree):
        if key.endswith("_template") and pyflow.const_str(val):
            defaults[key] = pyflow.const_str(val)
    for mn in modules:
        m = repo.module(mn)
        for q, fn in m.functions().items():
            for node in ast.walk(fn):
                for field in ("body", "orelse"):
                    lst = getattr(node, field, None)
                    if not isinstance(lst, list):
                        continue
                    for idx, st in enumerate(lst):
                        if not (isinstance(st, ast.Assign) and isinstance(st.value, ast.Call) and
                                (pyflow.call_name(st.value) or "").endswith("wformat") and len(st.value.args) == 2):
                            continue
                        tmpl, scope = st.value.args
                        if not (isinstance(tmpl, ast.Attribute) and tmpl.attr in defaults and isinstance(scope, ast.Name)):
                            continue
                        n += 1
                        fields = set(re.findall(r"\{(\w+)\}", defaults[tmpl.attr]))
                        for later in lst[idx + 1:]:
                            for a in ast.walk(later):
                                if isinstance(a, ast.Assign) and isinstance(a.targets[0], ast.Attribute) and \
                                        pyflow.is_name(a.targets[0].value, scope.id) and a.targets[0].attr in fields:
                                    out.append((mn, q, st, "`%s` is expanded (`%s` = \"%s\") before `%s.%s` is assigned a few lines below: "
                                                "the name is built from the value the field had before"
                                                % (ast.unparse(st.targets[0]), tmpl.attr, defaults[tmpl.attr], scope.id, a.targets[0].attr)))
    return out, n


def falsy_default_on_numeric_option(repo, modules):
    """`options.N or <default>` where N is an option whose default is a number: 0 is a value of such an option (line
    length 0 = shortest possible lines), `or` replaces it by the default."""
    out, n = [], 0
    am = repo.module("ast")
    numeric = set()
    for key, val in pyflow.table_fields(am.func("LibraryNode.default_options")):
        if isinstance(val, ast.Constant) and type(val.value) in (int, float):
            numeric.add(key)
    for mn in modules:
        m = repo.module(mn)
        for q, fn in m.functions().items():
            for b in ast.walk(fn):
                if isinstance(b, ast.BoolOp) and isinstance(b.op, ast.Or) and isinstance(b.values[0], ast.Attribute) and \
                        b.values[0].attr in numeric and "options" in ast.unparse(b.values[0].value):
                    n += 1
                    out.append((mn, q, b, "`%s`: %s is a numeric option and 0 is one of its values; `or` replaces 0 by the default"
                                % (ast.unparse(b), b.values[0].attr)))
            for b in ast.walk(fn):
                if isinstance(b, ast.Attribute) and b.attr in numeric and "options" in ast.unparse(b.value):
                    n += 1
    return out, n


def first_wins_class_memo(repo, modules):
    """`if K.attr is None: K.attr = <something of this run>` on a class attribute (or `K.attr = K.attr or ...`): the
    first run of the process fills it and every later run reads the first run's value.  A class attribute that is
    set unconditionally at the start of every run (an assignment in some __init__ that is not under such a test) is
    per-run state and is not reported."""
    out, n = [], 0
    classes = {}
    for mn in modules:
        m = repo.module(mn)
        for c in ast.walk(m.tree):
            if isinstance(c, ast.ClassDef):
                classes[c.name] = (mn, c)
    for mn in modules:
        m = repo.module(mn)
        for q, fn in m.functions().items():
            for i in ast.walk(fn):
                if not isinstance(i, ast.If):
                    continue
                t = i.test
                if not (isinstance(t, ast.Compare) and len(t.ops) == 1 and isinstance(t.ops[0], ast.Is) and
                        isinstance(t.comparators[0], ast.Constant) and t.comparators[0].value is None and
                        isinstance(t.left, ast.Attribute) and isinstance(t.left.value, ast.Name) and t.left.value.id in classes):
                    continue
                n += 1
                cls, attr = t.left.value.id, t.left.attr
                fills = [a for st in i.body for a in ast.walk(st) if isinstance(a, ast.Assign) and
                         ast.unparse(a.targets[0]) == "%s.%s" % (cls, attr)]
                if not fills:
                    continue
                # an unconditional per-run assignment elsewhere?
                per_run = False
                for mn2 in modules:
                    m2 = repo.module(mn2)
                    for q2, f2 in m2.functions().items():
                        for a in ast.walk(f2):
                            if isinstance(a, ast.Assign) and ast.unparse(a.targets[0]) == "%s.%s" % (cls, attr) and a not in fills:
                                per_run = True
                if not per_run:
                    out.append((mn, q, fills[0], "`%s.%s` is a class attribute that is filled when it is still None and never set again: "
                                "the second library wrapped in the same process reads what the first one stored" % (cls, attr)))
    return out, n


def singleton_shortcut_mismatch(repo, modules):
    """`if len(xs) == 1: y = ys[0]; ...` - the shortcut for "there is only one" tests the length of one list and takes
    the first element of another.  When the lists differ in length (overloads against calls: one overload with
    default arguments gives several calls) the shortcut takes a wrong, or the wrong number of, elements."""
    out, n = [], 0
    for mn in modules:
        m = repo.module(mn)
        for q, fn in m.functions().items():
            for i in ast.walk(fn):
                if not (isinstance(i, ast.If) and isinstance(i.test, ast.Compare) and len(i.test.ops) == 1
                        and isinstance(i.test.ops[0], ast.Eq) and isinstance(i.test.left, ast.Call)
                        and pyflow.is_name(i.test.left.func, "len") and i.test.left.args
                        and isinstance(i.test.left.args[0], ast.Name)
                        and isinstance(i.test.comparators[0], ast.Constant) and i.test.comparators[0].value == 1):
                    continue
                tested = i.test.left.args[0].id
                firsts = [x for st in i.body for x in ast.walk(st) if isinstance(x, ast.Subscript) and isinstance(x.value, ast.Name)
                          and isinstance(x.slice, ast.Constant) and x.slice.value == 0 and isinstance(x.ctx, ast.Load)]
                if not firsts:
                    continue
                n += 1
                for x in firsts:
                    if x.value.id != tested:
                        # both are lists built in this function
                        out.append((mn, q, i, "`if len(%s) == 1:` takes `%s[0]`: the test is about another list than the one the "
                                    "element comes from; when `%s` has more entries than `%s` the others are never looked at"
                                    % (tested, x.value.id, x.value.id, tested)))
    return out, n


def early_exit_skips_traversal(repo, modules):
    """A function that walks a node visits several kinds of children one after the other.  `if not node.functions:
    return` in front of the loop over `node.namespaces` makes the visit of one kind depend on the presence of
    another."""
    out, n = [], 0
    for mn in modules:
        m = repo.module(mn)
        for q, fn in m.functions().items():
            for lp in ast.walk(fn):
                if not (isinstance(lp, ast.For) and isinstance(lp.iter, ast.Attribute) and isinstance(lp.iter.value, ast.Name)):
                    continue
                owner, kind = lp.iter.value.id, lp.iter.attr
                if kind not in ("namespaces", "classes", "functions", "enums", "variables", "typedefs"):
                    continue
                n += 1
                for t, pol in pyflow.early_exit_guards(fn, lp):
                    for x in ast.walk(t):
                        if isinstance(x, ast.Attribute) and isinstance(x.value, ast.Name) and x.value.id == owner and \
                                x.attr in ("namespaces", "classes", "functions", "enums", "variables", "typedefs") and x.attr != kind:
                            out.append((mn, q, lp, "the %s of `%s` are visited only when `%s.%s` is not empty (an earlier `return`): "
                                        "a scope without %s loses its %s" % (kind, owner, owner, x.attr, x.attr, kind)))
    return out, n


def none_then_attribute(repo, modules):
    """A local that holds an object is set to None under a condition (`if blk.name == "default": blk = None`) and an
    attribute of it is read further down without a test of the variable: AttributeError on the paths that went
    through the assignment."""
    out, n = [], 0
    for mn in modules:
        m = repo.module(mn)
        for q, fn in m.functions().items():
            for a in ast.walk(fn):
                if not (isinstance(a, ast.Assign) and len(a.targets) == 1 and isinstance(a.targets[0], ast.Name)
                        and isinstance(a.value, ast.Constant) and a.value.value is None):
                    continue
                name = a.targets[0].id
                conds = pyflow.dominating_tests(a, stop=fn)
                if not conds:
                    continue            # an initialisation, not a conditional clearing
                # the variable held an object before: an earlier assignment from a call / attribute
                earlier = [b for b in ast.walk(fn) if isinstance(b, ast.Assign) and any(pyflow.is_name(t, name) for t in b.targets)
                           and b.lineno < a.lineno and not (isinstance(b.value, ast.Constant) and b.value.value is None)]
                if not earlier:
                    continue
                n += 1
                for x in ast.walk(fn):
                    if not (isinstance(x, ast.Attribute) and pyflow.is_name(x.value, name) and x.lineno > a.end_lineno):
                        continue
                    # reassigned in between on the same level?
                    again = [b for b in ast.walk(fn) if isinstance(b, ast.Assign) and any(pyflow.is_name(t, name) for t in b.targets)
                             and a.lineno < b.lineno < x.lineno and not (isinstance(b.value, ast.Constant) and b.value.value is None)]
                    if again:
                        continue
                    tests = [t for t, pol in pyflow.dominating_tests(x, stop=fn)] + [t for t, pol in pyflow.early_exit_guards(fn, x)]
                    guarded = any(any(pyflow.is_name(y, name) for y in ast.walk(t)) for t in tests)
                    # short-circuit: `blk and blk.name`
                    par = getattr(x, "_parent", None)
                    while par is not None and not isinstance(par, ast.stmt):
                        if isinstance(par, ast.BoolOp) and any(pyflow.is_name(v, name) for v in par.values):
                            guarded = True
                        par = getattr(par, "_parent", None)
                    # same branch as the clearing itself is fine only if after... (it is None there): not guarded
                    if not guarded:
                        out.append((mn, q, x, "`%s` is set to None at line %d (under `%s`) and `%s` is read here without a test of `%s`: "
                                    "AttributeError on the inputs that take that branch"
                                    % (name, a.lineno, ast.unparse(conds[0][0])[:50], ast.unparse(x), name)))
                        break
    return out, n


def identity_test_on_option(repo, modules):
    """`options.X is False` / `node.wrap.fortran is False`: an option written as 0 in the YAML file (or given as
    --option X=0, which is read as a number) is false for every `if not options.X` and not for this test."""
    out, n = [], 0
    for mn in modules:
        m = repo.module(mn)
        for q, fn in m.functions().items():
            for c in ast.walk(fn):
                if isinstance(c, ast.Compare) and len(c.ops) == 1 and isinstance(c.ops[0], (ast.Is, ast.IsNot)) and \
                        isinstance(c.comparators[0], ast.Constant) and c.comparators[0].value in (True, False) and \
                        isinstance(c.left, ast.Attribute):
                    src = ast.unparse(c.left)
                    if "options." in src or ".wrap." in src:
                        n += 1
                        out.append((mn, q, c, "`%s`: the value comes from the YAML file or the command line, where false can be "
                                    "written 0: the identity test treats it as set" % ast.unparse(c)))
    return out, n


def validation_flag_never_set(repo, modules):
    """`if node._flag is True: raise ...` where `_flag` is only ever assigned False / None anywhere in the program: the
    validation can never fire (`void f(int a = 1, int b)` is accepted because nothing records that a default was
    seen)."""
    out, n = [], 0
    assigned = {}
    for mn in modules:
        m = repo.module(mn)
        for a in ast.walk(m.tree):
            if isinstance(a, ast.Assign):
                for t in a.targets:
                    if isinstance(t, ast.Attribute) and t.attr.startswith("_"):
                        assigned.setdefault(t.attr, []).append(a.value)
            elif isinstance(a, ast.Call) and pyflow.is_name(a.func, "setattr") and len(a.args) == 3 and pyflow.const_str(a.args[1]):
                assigned.setdefault(pyflow.const_str(a.args[1]), []).append(a.args[2])
    for mn in modules:
        m = repo.module(mn)
        for q, fn in m.functions().items():
            for i in ast.walk(fn):
                if not (isinstance(i, ast.If) and any(isinstance(x, ast.Raise) for st in i.body for x in ast.walk(st))):
                    continue
                for x in ast.walk(i.test):
                    if isinstance(x, ast.Attribute) and x.attr.startswith("_") and x.attr in assigned:
                        vals = assigned[x.attr]
                        n += 1
                        if all(isinstance(v, ast.Constant) and v.value in (False, None) for v in vals):
                            # the test asks for the flag to be set
                            t = ast.unparse(i.test)
                            if ("%s is True" % ast.unparse(x)) in t or t == ast.unparse(x) or (" and %s" % ast.unparse(x)) in t:
                                out.append((mn, q, i, "`%s` guards a diagnostic and `.%s` is only ever assigned %s: the test can never "
                                            "hold, the input it is meant to refuse is accepted"
                                            % (t, x.attr, sorted(set(repr(v.value) for v in vals)))))
    return out, n


def snapshot_before_update(repo, modules):
    """`copy.deepcopy(x.items)` is taken, and further down the same function the originals are still being completed
    (`for e in x.items: e.attrs.update(...)` / `e.field = ...`): every copy misses what the user supplied there."""
    out, n = [], 0
    for mn in modules:
        m = repo.module(mn)
        for q, fn in m.functions().items():
            for c in ast.walk(fn):
                if not (isinstance(c, ast.Call) and ast.unparse(c.func) in ("copy.deepcopy", "copy.copy", "deepcopy")
                        and c.args and isinstance(c.args[0], (ast.Attribute, ast.Name))):
                    continue
                src = ast.unparse(c.args[0])
                if src in ("self",):
                    continue
                n += 1
                for loop in ast.walk(fn):
                    if not (isinstance(loop, ast.For) and ast.unparse(loop.iter) == src and loop.lineno > c.lineno
                            and isinstance(loop.target, ast.Name)):
                        continue
                    # the copy and the loop are on one path: the loop is not inside the statement holding the copy
                    var = loop.target.id
                    for x in ast.walk(loop):
                        hit = None
                        if isinstance(x, ast.Call) and isinstance(x.func, ast.Attribute) and x.func.attr in ("update", "append", "extend", "setdefault"):
                            base = x.func.value
                            while isinstance(base, (ast.Attribute, ast.Subscript)):
                                base = base.value
                            if pyflow.is_name(base, var):
                                hit = x
                        elif isinstance(x, ast.Assign):
                            for t in x.targets:
                                base = t
                                while isinstance(base, (ast.Attribute, ast.Subscript)):
                                    base = base.value
                                if base is not t and pyflow.is_name(base, var):
                                    hit = x
                        if hit is not None:
                            # what is stored comes from somewhere (the user's groups): a constant that resets a field of
                            # the originals after the copies took theirs is no loss for the copies
                            val = hit.value if isinstance(hit, ast.Assign) else (hit.args[0] if hit.args else None)
                            if val is None or not any(isinstance(y, (ast.Name, ast.Attribute, ast.Subscript)) for y in ast.walk(val)):
                                hit = None
                        if hit is not None:
                            out.append((mn, q, hit, "`%s` was deep-copied at line %d and its elements are still being completed here: "
                                        "the copies do not get `%s`" % (src, c.lineno, " ".join(ast.unparse(hit).split())[:60])))
                            break
    return out, n


def inherited_container_mutated(repo, modules):
    """`blk = util.Scope(parent, a=...)` looks a missing field up in `parent`.  `blk.declare.extend(x)` with no `declare=`
    given at construction changes the parent's list - for the statement defaults (PyStmts, CStmts, ...) that is one list for
    the whole process: the line shows up in every later wrapper."""
    MUT = ("append", "extend", "insert", "update", "setdefault", "add", "remove", "pop", "clear", "sort")
    out, n = [], 0
    for mn in modules:
        m = repo.module(mn)
        for q, fn in m.functions().items():
            scopes = {}
            for a in ast.walk(fn):
                if isinstance(a, ast.Assign) and len(a.targets) == 1 and isinstance(a.targets[0], ast.Name) \
                        and isinstance(a.value, ast.Call) and (pyflow.call_name(a.value) or "").split(".")[-1] == "Scope" \
                        and a.value.args and not (isinstance(a.value.args[0], ast.Constant) and a.value.args[0].value is None) \
                        and not any(k.arg is None for k in a.value.keywords):
                    scopes.setdefault(a.targets[0].id, []).append(a)
            if not scopes:
                continue
            for c in ast.walk(fn):
                if not (isinstance(c, ast.Call) and isinstance(c.func, ast.Attribute) and c.func.attr in MUT
                        and isinstance(c.func.value, ast.Attribute) and isinstance(c.func.value.value, ast.Name)
                        and c.func.value.value.id in scopes):
                    continue
                var, field = c.func.value.value.id, c.func.value.attr
                # the construction that reaches this use: the last one above it
                above = [a for a in scopes[var] if a.lineno < c.lineno]
                if not above:
                    continue
                a = max(above, key=lambda x: x.lineno)
                n += 1
                own = set(k.arg for k in a.value.keywords)
                # a field assigned on the scope itself in between is its own as well
                for b in ast.walk(fn):
                    if isinstance(b, ast.Assign) and a.lineno < b.lineno < c.lineno:
                        for t in b.targets:
                            if isinstance(t, ast.Attribute) and pyflow.is_name(t.value, var):
                                own.add(t.attr)
                if field not in own:
                    out.append((mn, q, c, "`%s` is a Scope over `%s` made without a `%s=` of its own: `%s` changes the list of the "
                                "parent, which every other block made from it reads" % (var, ast.unparse(a.value.args[0]), field,
                                                                                       " ".join(ast.unparse(c).split())[:60])))
    return out, n


def break_on_element_flag(repo, modules):
    """`for var in node.variables: if not var.wrap.python: break` - the wrap flag says whether *this* element is wrapped;
    leaving the loop drops every element behind the first one that is switched off (`continue` is meant)."""
    out, n = [], 0
    for mn in modules:
        m = repo.module(mn)
        for q, fn in m.functions().items():
            for lp in ast.walk(fn):
                if not (isinstance(lp, ast.For) and isinstance(lp.target, ast.Name)):
                    continue
                v = lp.target.id
                for i in ast.walk(lp):
                    if not isinstance(i, ast.If):
                        continue
                    reads = [x for x in ast.walk(i.test) if isinstance(x, ast.Attribute) and isinstance(x.value, ast.Attribute)
                             and x.value.attr == "wrap" and pyflow.is_name(x.value.value, v)]
                    if not reads:
                        continue
                    n += 1
                    for arm in (i.body, i.orelse):
                        if any(isinstance(st, ast.Break) for st in arm):
                            # the innermost loop of the break is this one
                            inner = [l for l in ast.walk(lp) if isinstance(l, (ast.For, ast.While)) and l is not lp
                                     and any(x is i for x in ast.walk(l))]
                            if not inner:
                                out.append((mn, q, i, "`%s` decides about `%s` alone, and the loop over `%s` is left: the elements "
                                            "behind the first one that is switched off are never looked at"
                                            % (ast.unparse(i.test), v, ast.unparse(lp.iter))))
    return out, n


def required_key_presence_only(repo, modules):
    """`if "k" not in d: raise RuntimeError("... requires k")` and nothing looks at the value: in a YAML file `k:` with
    nothing behind it is present and None, so the requirement is met by a blank entry and None travels on."""
    out, n = [], 0
    for mn in modules:
        m = repo.module(mn)
        for q, fn in m.functions().items():
            for i in ast.walk(fn):
                if not (isinstance(i, ast.If) and any(isinstance(x, ast.Raise) for st in i.body for x in ast.walk(st))):
                    continue
                for c in ast.walk(i.test):
                    if not (isinstance(c, ast.Compare) and len(c.ops) == 1 and isinstance(c.ops[0], ast.NotIn)
                            and pyflow.const_str(c.left) and isinstance(c.comparators[0], ast.Name)):
                        continue
                    key, d = pyflow.const_str(c.left), c.comparators[0].id
                    if key.startswith("__") or len(key) < 2 or not re.match(r"^\w+$", key):
                        continue
                    n += 1
                    # the value is examined somewhere: d["k"] / d.get("k") inside a test, isinstance, or a checking helper
                    looked = False
                    for x in ast.walk(fn):
                        if isinstance(x, ast.Subscript) and pyflow.is_name(x.value, d) and pyflow.const_str(x.slice) == key:
                            src = x
                        elif isinstance(x, ast.Call) and isinstance(x.func, ast.Attribute) and x.func.attr == "get" \
                                and pyflow.is_name(x.func.value, d) and x.args and pyflow.const_str(x.args[0]) == key:
                            src = x
                        else:
                            continue
                        # local copy: v = d["k"]; then tests of v count
                        names = set()
                        par = getattr(src, "_parent", None)
                        if isinstance(par, ast.Assign) and len(par.targets) == 1 and isinstance(par.targets[0], ast.Name):
                            names.add(par.targets[0].id)
                        p2 = par
                        while p2 is not None and not isinstance(p2, ast.stmt):
                            if isinstance(p2, ast.Call) and (pyflow.call_name(p2) or "") in ("isinstance", "str", "int", "len"):
                                looked = True
                            if isinstance(p2, (ast.Compare, ast.BoolOp, ast.UnaryOp)):
                                looked = True
                            p2 = getattr(p2, "_parent", None)
                        if isinstance(p2, (ast.If, ast.While)) and any(y is src for y in ast.walk(p2.test)):
                            looked = True
                        for nm in names:
                            for t in ast.walk(fn):
                                if isinstance(t, (ast.If, ast.IfExp)) and any(pyflow.is_name(y, nm) for y in ast.walk(t.test)):
                                    looked = True
                                if isinstance(t, ast.Call) and (pyflow.call_name(t) or "") == "isinstance" and t.args and pyflow.is_name(t.args[0], nm):
                                    looked = True
                    if not looked:
                        out.append((mn, q, i, "`%s` is required to be present in `%s` and its value is never examined: `%s:` with "
                                    "nothing behind it (None) passes the test" % (key, d, key)))
    return out, n


def shallow_clone_shares_list(repo, modules):
    """`new = copy.copy(self)` in a clone method: the lists of the original are the lists of the clone.  A list attribute
    that some pass appends to through a node (`node.fortran_generic.append(g)`) and that clone() does not bind anew is
    filled once for the original and all its clones together."""
    out, n = [], 0
    # attribute names appended to through an object other than self, anywhere
    appended = {}
    for mn in modules:
        m = repo.module(mn)
        for c in ast.walk(m.tree):
            if isinstance(c, ast.Call) and isinstance(c.func, ast.Attribute) and c.func.attr in ("append", "extend", "insert") \
                    and isinstance(c.func.value, ast.Attribute) and isinstance(c.func.value.value, ast.Name) \
                    and c.func.value.value.id != "self":
                appended.setdefault(c.func.value.attr, []).append((m, c))
    for mn in modules:
        m = repo.module(mn)
        for cls in [c for c in ast.walk(m.tree) if isinstance(c, ast.ClassDef)]:
            init = [f for f in cls.body if isinstance(f, ast.FunctionDef) and f.name == "__init__"]
            clones = [f for f in cls.body if isinstance(f, ast.FunctionDef) and f.name == "clone"]
            if not init or not clones:
                continue
            shallow = [a for a in ast.walk(clones[0]) if isinstance(a, ast.Assign) and isinstance(a.value, ast.Call)
                       and ast.unparse(a.value.func) == "copy.copy" and a.value.args and pyflow.is_name(a.value.args[0], "self")]
            if not shallow or not isinstance(shallow[0].targets[0], ast.Name):
                continue
            new = shallow[0].targets[0].id
            lists = set()
            for a in ast.walk(init[0]):
                if isinstance(a, ast.Assign) and isinstance(a.targets[0], ast.Attribute) and pyflow.is_name(a.targets[0].value, "self"):
                    v = a.value
                    if isinstance(v, (ast.List, ast.ListComp)) or \
                            (isinstance(v, ast.Call) and isinstance(v.func, ast.Attribute) and v.func.attr == "get" and len(v.args) == 2
                             and isinstance(v.args[1], ast.List)):
                        lists.add(a.targets[0].attr)
            rebound = set(a.targets[0].attr for a in ast.walk(clones[0]) if isinstance(a, ast.Assign)
                          and isinstance(a.targets[0], ast.Attribute) and pyflow.is_name(a.targets[0].value, new))
            for attr in sorted(lists):
                if attr not in appended:
                    continue
                n += 1
                if attr not in rebound:
                    m2, c = appended[attr][0]
                    out.append((mn, "%s.clone" % cls.name, shallow[0], "`%s = copy.copy(self)` keeps the original's `%s` list, and "
                                "`%s` (%s) appends to it through a node: the original and every clone fill one list together"
                                % (new, attr, " ".join(ast.unparse(c).split())[:50], m2.loc(c))))
    return out, n
