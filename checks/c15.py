"""C15 - wrapper selection is honoured and the file lists match what was
written."""
import ast
import re

from sa import pyflow
from sa import pattern as pat
from sa.symbols import Program
from sa.loader import AnalysisError, enclosing_function, parent_chain

EXPLANATION = (
    "Guard/effect and pairing analysis: (R1) each emitter's wrap_library() call in main_with_args is "
    "dominated by the test of its own library flag and Python/Lua run after the last C/Fortran write; "
    "(R2) every write_output_file in wrapc/wrapf is preceded on the same path by the matching "
    "cfiles/ffiles.append(os.path.join(dir, name)) with identical name and directory expressions, the "
    "lists are appended nowhere else, and each emitter writes only into its own directory option; "
    "(R3) every place that switches a wrap flag ON for a generated function copies or is guarded by "
    "the source flag; (R4) C/Fortran emitters never read Python/Lua flags or options and the "
    "Python/Lua emitters never touch cfiles/ffiles; (R5) every per-declaration wrap entry point of an "
    "emitter tests the declaration's flag for that language.")
NOT_DECIDED = "Equality of actual output directories between runs with different wrapper selections."

FLAG_OF = {"Wrapc": "c", "Wrapf": "fortran", "Wrapp": "python", "Wrapl": "lua"}


def _reads_flag(test, flag, roots=("wrap",)):
    """Does `test` read <something>.wrap.<flag> or wrap.<flag> / options.wrap_<flag>?"""
    for n in ast.walk(test):
        if isinstance(n, ast.Attribute):
            d = pyflow.dotted(n) or ""
            parts = d.split(".")
            if len(parts) >= 2 and parts[-2] == "wrap" and parts[-1] == flag:
                return True
            if parts[-1] == "wrap_" + flag:
                return True
    return False


def rule_r1(repo, run):
    R = run.rule("C15.R1", "each emitter runs only under its own library-level flag; Python/Lua run after "
                           "the last C/Fortran write")
    m = repo.module("main")
    f = m.func("main_with_args")
    # instance variable -> class
    inst = {}
    for node in ast.walk(f):
        if isinstance(node, ast.Assign) and isinstance(node.value, ast.Call):
            cn = (pyflow.call_name(node.value) or "").split(".")[-1]
            if cn in FLAG_OF:
                for t in node.targets:
                    if isinstance(t, ast.Name):
                        inst[t.id] = cn
    found = {}
    order = []
    for node in ast.walk(f):
        if isinstance(node, ast.Call) and isinstance(node.func, ast.Attribute):
            recv = node.func.value
            cls = None
            if isinstance(recv, ast.Name) and recv.id in inst:
                cls = inst[recv.id]
            elif isinstance(recv, ast.Call):
                cn = (pyflow.call_name(recv) or "").split(".")[-1]
                if cn in FLAG_OF:
                    cls = cn
            if cls is None:
                continue
            order.append((node.lineno, cls, node.func.attr))
            if node.func.attr == "wrap_library":
                flag = FLAG_OF[cls]
                tests = pyflow.dominating_tests(node, stop=f)
                ok = any(pol and _reads_flag(t, flag) and
                         not any(_reads_flag(t, o) for o in FLAG_OF.values() if o != flag)
                         for t, pol in tests)
                found[cls] = True
                run.check(R, "main.main_with_args:%s.wrap_library" % cls, ok,
                          "%s.wrap_library() is not guarded by `if wrap.%s`" % (cls, flag), m.loc(node),
                          sample=dict(emitter=cls, guard=[m.seg(t) for t, p in tests]))
    for cls in FLAG_OF:
        if cls not in found:
            raise AnalysisError("C15.R1: no %s(...).wrap_library() call found in main_with_args" % cls)
    order.sort()
    last_cf = max([ln for ln, cls, meth in order if cls in ("Wrapc", "Wrapf")] or [0])
    for ln, cls, meth in order:
        if cls in ("Wrapp", "Wrapl"):
            run.check(R, "main.main_with_args:order:%s" % cls, ln > last_cf,
                      "%s runs before the last C/Fortran emitter call (line %d): it could influence "
                      "C/Fortran output" % (cls, last_cf), "%s:%d" % (m.relpath, ln))


DIRS = {"wrapc": {"c_fortran_dir"}, "wrapf": {"c_fortran_dir"}, "wrapp": {"python_dir"},
        "wrapl": {"lua_dir"}, "main": {"yaml_dir"}}
# one named exception: setup.py is a build script for the whole project, written to --outdir
DIR_EXCEPTIONS = {("wrapp", "Wrapp.write_setup"): {"out_dir"}}
LISTS = {"wrapc": "cfiles", "wrapf": "ffiles"}


def rule_r2(repo, run):
    R = run.rule("C15.R2", "file registration pairs with writing; every emitter writes into its own directory")
    nwrites = 0
    for mname in ("wrapc", "wrapf", "wrapp", "wrapl", "main"):
        m = repo.module(mname)
        for node in ast.walk(m.tree):
            if not (isinstance(node, ast.Call) and (pyflow.call_name(node) or "").endswith("write_output_file")):
                continue
            if len(node.args) < 2:
                continue
            nwrites += 1
            fn = enclosing_function(node)
            q = getattr(fn, "_qualname", "?")
            name_e, dir_e = node.args[0], node.args[1]
            dirname = (pyflow.dotted(dir_e) or "").split(".")[-1]
            allowed = DIR_EXCEPTIONS.get((mname, q), DIRS[mname])
            run.check(R, "%s.%s:write_output_file.dir" % (mname, q), dirname in allowed,
                      "file %s is written into config.%s, expected %s"
                      % (m.seg(name_e), dirname, sorted(allowed)), m.loc(node),
                      sample=dict(where="%s.%s" % (mname, q), dir=dirname))
            if mname in LISTS:
                lst = LISTS[mname]
                # the statement list containing the write
                stmt = node
                while not isinstance(getattr(stmt, "_parent", None), (ast.FunctionDef, ast.If, ast.For,
                                                                      ast.While, ast.With, ast.Try)):
                    stmt = stmt._parent
                parent = stmt._parent
                body = None
                for fld in ("body", "orelse", "finalbody"):
                    l = getattr(parent, fld, None)
                    if isinstance(l, list) and any(x is stmt for x in l):
                        body = l
                idx = [i for i, x in enumerate(body) if x is stmt][0]
                ok = False
                why = "no %s.append(os.path.join(dir, name)) precedes the write in the same block" % lst
                for prev in body[:idx]:
                    for c in pyflow.calls_in(prev):
                        d = pyflow.call_name(c) or ""
                        if d.endswith("%s.append" % lst) and c.args:
                            a = c.args[0]
                            if isinstance(a, ast.Call) and (pyflow.call_name(a) or "") == "os.path.join" \
                                    and len(a.args) == 2:
                                if ast.dump(a.args[0]) == ast.dump(dir_e) and ast.dump(a.args[1]) == ast.dump(name_e):
                                    ok = True
                                else:
                                    why = "registered %s but writes (%s, %s)" % (m.seg(a), m.seg(dir_e), m.seg(name_e))
                run.check(R, "%s.%s:write_output_file.registered" % (mname, q), ok, why, m.loc(node),
                          sample=dict(where="%s.%s" % (mname, q), list=lst))
    run.floor(R, "write_output_file sites", nwrites, 12)
    # appended nowhere else, never otherwise mutated
    for m in repo.modules():
        for kind, recv, node in pyflow.mutation_sites(m.tree):
            if kind == "setattr":
                continue      # (re)binding the attribute, e.g. Config.__init__: not a list mutation
            if recv and recv.split(".")[-1] in ("cfiles", "ffiles"):
                fn = enclosing_function(node)
                q = getattr(fn, "_qualname", "<module>")
                ok = m.name in LISTS and LISTS[m.name] == recv.split(".")[-1] and kind == "call:append"
                run.check(R, "%s.%s:%s %s" % (m.name, q, kind, recv), ok,
                          "%s is mutated (%s) outside its emitter" % (recv, kind), m.loc(node))
    # every append is followed by a write in the same block (no phantom entries)
    for mname, lst in LISTS.items():
        m = repo.module(mname)
        for node in ast.walk(m.tree):
            if isinstance(node, ast.Call) and (pyflow.call_name(node) or "").endswith("%s.append" % lst):
                stmt = node
                while not isinstance(getattr(stmt, "_parent", None), (ast.FunctionDef, ast.If, ast.For,
                                                                      ast.While, ast.With, ast.Try)):
                    stmt = stmt._parent
                parent = stmt._parent
                body = [l for fld in ("body", "orelse") for l in [getattr(parent, fld, None)]
                        if isinstance(l, list) and any(x is stmt for x in l)][0]
                idx = [i for i, x in enumerate(body) if x is stmt][0]
                follows = any((pyflow.call_name(c) or "").endswith("write_output_file")
                              for nxt in body[idx + 1:] for c in pyflow.calls_in(nxt))
                fn = enclosing_function(node)
                run.check(R, "%s.%s:%s.append->write" % (mname, getattr(fn, "_qualname", "?"), lst), follows,
                          "file is registered in %s but no write_output_file follows in the same block" % lst,
                          m.loc(node))


ON_FLAGS = ("c", "fortran", "python", "lua", "c_f")


def _flag_guards(P, fid, node, flag, depth=0):
    """Is `node` (inside function fid) reached only when the source flag for
    `flag` is true?  Looks at dominating tests, preceding early exits and - one
    level up - the guards at every call site of the function."""
    func = P.funcs[fid]
    accept = [flag]
    if flag == "c":
        accept.append("fortran")     # Fortran is only requested together with C
    for t, pol in pyflow.dominating_tests(node, stop=func):
        if pol and any(_reads_flag(t, a) for a in accept):
            return "dominating test %s" % ast.unparse(t)
        if not pol and any(_reads_flag(t, a) for a in accept) and _negative_test(t):
            return "else-branch of %s" % ast.unparse(t)
    for t, pol in pyflow.early_exit_guards(func, node):
        # (t, True): reached only when t holds (the exit was `if not t`); (t, False) with a negative comparison likewise
        if any(_reads_flag(t, a) for a in accept) and (pol or _negative_test(t)):
            return "early exit unless `%s`" % ast.unparse(t)
    if depth >= 2:
        return None
    # all call sites
    sites = []
    for caller in P.funcs:
        for call in P.calls_of(caller):
            ids, how = P.resolve_call(call, caller)
            if fid in ids and not how.startswith("byname"):
                sites.append((caller, call))
    if not sites:
        return None
    reasons = []
    for caller, call in sites:
        r = _flag_guards(P, caller, call, flag, depth + 1)
        if r is None:
            return None
        reasons.append("%s: %s" % (caller.split(":")[1], r))
    return "all callers guarded (" + "; ".join(reasons) + ")"


def _negative_test(t):
    """`not X`, `X is False`, `X == False` shapes."""
    if isinstance(t, ast.UnaryOp) and isinstance(t.op, ast.Not):
        return True
    if isinstance(t, ast.Compare) and len(t.ops) == 1 and isinstance(t.ops[0], (ast.Is, ast.Eq)):
        c = t.comparators[0]
        return isinstance(c, ast.Constant) and c.value is False
    if isinstance(t, ast.BoolOp):
        return all(_negative_test(v) for v in t.values)
    return False


def rule_r3(repo, run, P):
    R = run.rule("C15.R3", "a wrap flag is switched on for a generated declaration only by copying the source "
                           "flag or under a test of it")
    gm = repo.module("generate")
    n = 0
    for fid, func in P.funcs.items():
        if not fid.startswith("generate:"):
            continue
        for node in ast.walk(func):
            if enclosing_function(node) is not func:
                continue
            sites = []   # (flag, value expr, node)
            if isinstance(node, ast.Call) and isinstance(node.func, ast.Attribute) and \
                    node.func.attr == "assign" and (pyflow.dotted(node.func.value) or "").endswith(".wrap"):
                for k in node.keywords:
                    if k.arg in ON_FLAGS:
                        sites.append((k.arg, k.value, node))
            elif isinstance(node, ast.Assign):
                for t in node.targets:
                    d = pyflow.dotted(t) or ""
                    p = d.split(".")
                    if len(p) >= 3 and p[-2] == "wrap" and p[-1] in ON_FLAGS:
                        sites.append((p[-1], node.value, node))
            for flag, val, site in sites:
                construct = "generate.%s:wrap.%s=%s" % (fid.split(":")[1], flag, gm.seg(val))
                if isinstance(val, ast.Constant) and val.value is False:
                    continue
                n += 1
                if not (isinstance(val, ast.Constant) and val.value is True):
                    # copies something: must read the same flag of another node
                    ok = _reads_flag(val, flag)
                    run.check(R, construct, ok,
                              "flag %s is set from %r which does not read a wrap.%s flag"
                              % (flag, gm.seg(val), flag), gm.loc(site),
                              sample=dict(site=construct, rule="copies source flag"))
                    continue
                why = _flag_guards(P, fid, site, flag)
                run.check(R, construct, why is not None,
                          "wrap.%s is switched on unconditionally: with wrap_%s false at the source "
                          "declaration/library this still produces %s output (PromoteWrap propagates it "
                          "to the library flag)" % (flag, flag, flag), gm.loc(site),
                          sample=dict(site=construct, guarded_by=why))
    run.floor(R, "flag-on sites", n, 6)


PY_LUA_PREFIX = ("PY_", "LUA_", "PYN_")


def rule_r4(repo, run):
    R = run.rule("C15.R4", "C/Fortran emitters never read Python/Lua flags or options; Python/Lua emitters "
                           "never touch cfiles/ffiles")
    n = 0
    for mname in ("wrapc", "wrapf"):
        m = repo.module(mname)
        for node in ast.walk(m.tree):
            if isinstance(node, ast.Attribute) and isinstance(node.ctx, ast.Load):
                d = pyflow.dotted(node) or ""
                p = d.split(".")
                bad = None
                if len(p) >= 2 and p[-2] == "wrap" and p[-1] in ("python", "lua"):
                    bad = d
                elif p[-1] in ("wrap_python", "wrap_lua"):
                    bad = d
                elif p[-1].startswith(PY_LUA_PREFIX) and len(p) >= 2 and \
                        ("options" in p or p[-2].startswith("fmt") or p[-2] == "fmtdict"):
                    bad = d
                n += 1
                if bad:
                    fn = enclosing_function(node)
                    run.fail(R, "%s.%s:%s" % (mname, getattr(fn, "_qualname", "<module>"), bad),
                             "the %s emitter reads %s: switching the Python/Lua wrapper changes C/Fortran output"
                             % (mname, bad), m.loc(node))
        # string constants with {PY_...}/{LUA_...} fields in templates
        for node in ast.walk(m.tree):
            if isinstance(node, ast.Constant) and isinstance(node.value, str):
                import re
                for fld in re.findall(r"\{((?:PY|LUA)_[A-Za-z_0-9]*)\}", node.value):
                    fn = enclosing_function(node)
                    run.fail(R, "%s.%s:{%s}" % (mname, getattr(fn, "_qualname", "<module>"), fld),
                             "template in the %s emitter uses Python/Lua format field %s" % (mname, fld),
                             m.loc(node))
    run.ok(R, "wrapc/wrapf attribute reads", sample=dict(attribute_reads_inspected=n))
    run.floor(R, "attribute reads inspected", n, 1200)
    # generate.py: reads of python/lua flags only in the frozen exception
    gm = repo.module("generate")
    for node in ast.walk(gm.tree):
        if isinstance(node, ast.Attribute) and isinstance(node.ctx, ast.Load):
            d = pyflow.dotted(node) or ""
            p = d.split(".")
            hit = (len(p) >= 2 and p[-2] == "wrap" and p[-1] in ("python", "lua")) or \
                p[-1] in ("wrap_python", "wrap_lua") or \
                (p[-1].startswith(PY_LUA_PREFIX) and "options" in p)
            if hit:
                fn = enclosing_function(node)
                q = getattr(fn, "_qualname", "<module>")
                # frozen exception: struct-as-class constructor is a Python-only node (wrap_c/fortran off)
                ok = q == "GenFunctions.instantiate_classes" and _only_guards_call(node, "add_struct_ctor")
                run.check(R, "generate.%s:%s" % (q, d), ok,
                          "generate reads %s outside the Python-only struct constructor path" % d, gm.loc(node),
                          sample=dict(read=d, where=q, exception="guards add_struct_ctor only"))


def _only_guards_call(node, callee):
    """node is part of an `if` test whose body only calls self.<callee>(...)"""
    for p in parent_chain(node):
        if isinstance(p, ast.If):
            if len(p.body) == 1 and isinstance(p.body[0], ast.Expr) and isinstance(p.body[0].value, ast.Call):
                return (pyflow.call_name(p.body[0].value) or "").endswith(callee) and not p.orelse
            return False
    return False


ENTRY_POINTS = [
    ("wrapc", "Wrapc.wrap_function", "c"), ("wrapc", "Wrapc.wrap_struct", "c"),
    ("wrapp", "Wrapp.wrap_function", "python"),
]
LOOP_GUARDS = [
    ("wrapf", "Wrapf.wrap_functions", "fortran"), ("wrapf", "Wrapf.wrap_namespace", "fortran"),
    ("wrapl", "Wrapl.wrap_functions", "lua"), ("wrapl", "Wrapl.wrap_namespace", "lua"),
    ("wrapp", "Wrapp.wrap_functions", "python"), ("wrapp", "Wrapp.wrap_namespace", "python"),
    ("wrapc", "Wrapc.wrap_namespace", "c"),
]


def rule_r5(repo, run):
    R = run.rule("C15.R5", "per-declaration filtering: each emitter tests the declaration's own flag")
    for mname, q, flag in ENTRY_POINTS:
        m = repo.module(mname)
        f = m.func(q)
        ok = False
        for st in f.body[:6]:
            if isinstance(st, ast.If) and _reads_flag(st.test, flag) and st.body and \
                    isinstance(st.body[-1], ast.Return):
                ok = True
        run.check(R, "%s.%s:entry-guard" % (mname, q), ok,
                  "%s does not start with `if not node.wrap.%s: return`" % (q, flag), m.loc(f),
                  sample=dict(entry=q, flag=flag))
    for mname, q, flag in LOOP_GUARDS:
        m = repo.module(mname)
        f = m.func(q)
        ok = any(isinstance(n, ast.If) and _reads_flag(n.test, flag) for n in ast.walk(f))
        run.check(R, "%s.%s:loop-guard" % (mname, q), ok,
                  "%s iterates declarations without testing wrap.%s" % (q, flag), m.loc(f),
                  sample=dict(loop=q, flag=flag))


def rule_r6(repo, run):
    R = run.rule("C15.R6", "wrap flags are promoted bottom-up through every container and the output "
                           "directories come from their own command-line argument")
    am = repo.module("ast")
    cls = am.cls("PromoteWrap")
    visits = {n.name[len("visit_"):]: n for n in cls.body if isinstance(n, ast.FunctionDef) and n.name.startswith("visit_")}
    # which child collection holds instances of a class that PromoteWrap descends into
    descend = {}
    for k in visits:
        for fn in ast.walk(am.tree):
            if isinstance(fn, ast.FunctionDef):
                for _, env in pat.find(fn, "MV_N = %s(...)" % k):
                    for _, e2 in pat.find(fn, "self.MV_A.append(%s)" % env["N"]):
                        descend[e2["A"]] = k
    if not descend:
        raise AnalysisError("C15.R6: cannot tell which collections hold the containers PromoteWrap visits")
    colls = {}
    n = 0
    for k, fn in sorted(visits.items()):
        loops = [st for st in fn.body if isinstance(st, ast.For)]
        got = []
        for lp in loops:
            it = pyflow.dotted(lp.iter) or ""
            if not it.startswith(fn.args.args[1].arg + "."):
                continue
            coll = it.split(".", 1)[1]
            got.append(coll)
            v = lp.target.id if isinstance(lp.target, ast.Name) else None
            n += 1
            acc = [i for i, st in enumerate(lp.body) if pat.has(st, "MV_W.accumulate(%s.wrap)" % v)]
            vis = [i for i, st in enumerate(lp.body) if pat.has(st, "self.visit(%s)" % v)]
            construct = "ast.PromoteWrap.visit_%s:%s" % (k, coll)
            if not acc:
                run.check(R, construct, False, "children in %s are not accumulated into the container's flags" % coll,
                          am.loc(lp))
                continue
            if coll in descend:
                run.check(R, construct, bool(vis) and max(vis) < min(acc),
                          "%s children are containers themselves: they must be visited (so that their own flags are "
                          "complete) before being accumulated" % coll, am.loc(lp),
                          sample=dict(visitor=k, collection=coll, order=[am.seg(st) for st in lp.body]))
            else:
                run.check(R, construct, True, "", sample=dict(visitor=k, collection=coll))
        colls[k] = got
    run.floor(R, "child collections promoted", n, 15)
    if "LibraryNode" in colls and "NamespaceNode" in colls:
        run.check(R, "ast.PromoteWrap:siblings", sorted(colls["LibraryNode"]) == sorted(colls["NamespaceNode"]),
                  "library and namespace visitors must promote the same collections: %s vs %s"
                  % (colls["LibraryNode"], colls["NamespaceNode"]), am.loc(cls))
    if "ClassNode" in colls and "NamespaceNode" in colls:
        run.check(R, "ast.PromoteWrap:class-sibling",
                  sorted(set(colls["NamespaceNode"]) - {"namespaces"}) == sorted(colls["ClassNode"]),
                  "class visitor must promote every collection a namespace has except namespaces: %s"
                  % colls["ClassNode"], am.loc(cls))
    # output directories: <x>_dir = args.outdir_<x> or args.outdir
    mm = repo.module("main")
    f = mm.func("main_with_args")
    nd = 0
    for node in ast.walk(f):
        if isinstance(node, ast.Assign) and len(node.targets) == 1:
            t = pyflow.dotted(node.targets[0]) or ""
            if t.startswith("config.") and t.endswith("_dir") and t != "config.out_dir":
                nd += 1
                own = t[len("config."):-len("_dir")]
                want = ("args.outdir_%s or args.outdir" % own)
                run.check(R, "main.main_with_args:%s" % t, pat.match(pat.parse(want)[1], node.value, {}),
                          "%s must be its own --outdir-%s argument with --outdir as the only fallback; found `%s`"
                          % (t, own.replace("_", "-"), mm.seg(node.value)), mm.loc(node),
                          sample=dict(directory=t, value=mm.seg(node.value)))
    run.floor(R, "output directory assignments", nd, 4)
    # promotion keeps the languages apart: each flag of a container is or-ed with the same flag of the child
    wfl = am.func("WrapFlags.accumulate")
    other = wfl.args.args[1].arg
    na = 0
    for a in ast.walk(wfl):
        if isinstance(a, ast.Assign) and isinstance(a.targets[0], ast.Attribute) and pyflow.is_name(a.targets[0].value, "self"):
            na += 1
            flag = a.targets[0].attr
            ok = pat.match(pat.parse("self.%s = self.%s or %s.%s" % (flag, flag, other, flag))[1], a, {})
            run.check(R, "ast.WrapFlags.accumulate:%s" % flag, ok,
                      "`%s`: a container's %s flag must be or-ed with the child's %s flag and nothing else (a child's "
                      "flag of another language switches this language on, or fails to)" % (am.seg(a), flag, flag), am.loc(a))
    # the same written as a loop over the flag names: for name in (...): setattr(self, name, getattr(self, name) or getattr(w, name))
    covered = set(a.targets[0].attr for a in ast.walk(wfl) if isinstance(a, ast.Assign) and isinstance(a.targets[0], ast.Attribute)
                  and pyflow.is_name(a.targets[0].value, "self"))
    for lp in ast.walk(wfl):
        if isinstance(lp, ast.For) and isinstance(lp.target, ast.Name) and isinstance(lp.iter, (ast.Tuple, ast.List)):
            v = lp.target.id
            sets = [c for c in ast.walk(lp) if isinstance(c, ast.Call) and pyflow.is_name(c.func, "setattr") and len(c.args) == 3
                    and pyflow.is_name(c.args[0], "self") and pyflow.is_name(c.args[1], v)]
            for c in sets:
                want = "getattr(self, %s) or getattr(%s, %s)" % (v, other, v)
                names = [pyflow.const_str(e) for e in lp.iter.elts]
                for nm in names:
                    na += 1
                    covered.add(nm)
                    run.check(R, "ast.WrapFlags.accumulate:%s" % nm, ast.unparse(c.args[2]) == want,
                              "`%s`: a container's flag must be or-ed with the child's flag of the same language and nothing else"
                              % ast.unparse(c), am.loc(c))
    init = am.func("WrapFlags.__init__")
    defined = set(a.targets[0].attr for a in ast.walk(init) if isinstance(a, ast.Assign) and isinstance(a.targets[0], ast.Attribute)
                  and pyflow.is_name(a.targets[0].value, "self"))
    if len(defined) < 4:
        raise AnalysisError("C15.R6: the flags of WrapFlags.__init__ were not found")
    for flag in sorted(defined - covered):
        run.check(R, "ast.WrapFlags.accumulate:%s" % flag, False,
                  "WrapFlags has the flag `%s` and accumulate() does not promote it: a container whose own flag is off never learns "
                  "that one of its members is wrapped for that language - no file is written for it, silently" % flag, am.loc(wfl))
    run.floor(R, "flags accumulated", na, 4)
    # a pass that restricts its clone to C/Fortran leaves the Python/Lua flags of the original alone
    gm = repo.module("generate")
    nr = 0
    for q, fn in sorted(gm.functions().items()):
        if not q.startswith("GenFunctions."):
            continue
        clones = [e["N"] for _, e in pat.find(fn, "MV_N = MV_O.clone()")]
        restricted = False
        for cn in set(clones):
            if pat.has(fn, "%s.wrap.assign(c=..., fortran=...)" % cn) or pat.has(fn, "%s.wrap.assign(...)" % cn) and not \
                    any(k.arg in ("python", "lua") for c in ast.walk(fn) if isinstance(c, ast.Call)
                        and (pyflow.call_name(c) or "") == "%s.wrap.assign" % cn for k in c.keywords):
                restricted = True
            if pat.has(fn, "%s.wrap.clear()" % cn) and (pat.has(fn, "%s.wrap.c = MV_X" % cn) or pat.has(fn, "%s.wrap.fortran = MV_X" % cn)):
                restricted = True
        if not restricted:
            continue
        nr += 1
        src = fn.args.args[1].arg if len(fn.args.args) > 1 else "node"
        wipes = pat.find(fn, "%s.wrap.clear()" % src)
        run.check(R, "generate.%s:%s.wrap.clear()" % (q, src), not wipes,
                  "the clone made by this pass is wrapped for C/Fortran only, but the original declaration gets all its "
                  "wrap flags cleared: it disappears from the Python and Lua modules although those wrappers are on "
                  "(switching C/Fortran changes the Python/Lua output)", gm.loc(wipes[0][0]) if wipes else gm.loc(fn))
    run.floor(R, "passes with a C/Fortran-only clone", nr, 2)
    # inside a loop over child declarations, whatever an emitter does with a child happens under the child's own flag
    LANG = {"wrapc": "c", "wrapf": "fortran", "wrapp": "python", "wrapl": "lua"}
    nl = 0
    for mn, lang in sorted(LANG.items()):
        m = repo.module(mn)
        for q, fn in sorted(m.functions().items()):
            for lp in ast.walk(fn):
                if not (isinstance(lp, ast.For) and isinstance(lp.target, ast.Name)):
                    continue
                v = lp.target.id
                flag = "%s.wrap.%s" % (v, lang)
                tests = [n for n in ast.walk(lp) if isinstance(n, ast.If) and flag in m.seg(n.test)]
                if not tests:
                    continue
                nl += 1
                for c in ast.walk(lp):
                    if isinstance(c, ast.Call) and any(pyflow.is_name(a, v) for a in c.args) and (pyflow.call_name(c) or "").startswith("self."):
                        guards = [(str(m.seg(t)), pol) for t, pol in pyflow.dominating_tests(c, stop=lp) + pyflow.early_exit_guards(lp, c)]
                        ok = any(flag in t and pol for t, pol in guards)
                        run.check(R, "%s.%s:%s(%s)" % (mn, q, pyflow.call_name(c), v), ok,
                                  "`%s` is applied to every %s of the loop, also to those whose %s wrapper is off (it is not "
                                  "under the test of %s): something is emitted for a declaration that was switched off"
                                  % (m.seg(c), v, lang, flag), m.loc(c))
    run.floor(R, "loops that filter children by their wrap flag", nl, 6)
    # a pass that prepares Python-only declarations works on copies
    from sa import lints
    for mn, q, node, msg in lints.aliased_then_mutated(repo, "generate", "GenFunctions.add_struct_ctor"):
        run.fail(R, "%s.%s:alias" % (mn, q), msg + " - the struct's member declarations are shared with the C and Fortran "
                 "emitters, so switching the Python wrapper on changes their output", gm.loc(node))
    run.ok(R, "generate.GenFunctions.add_struct_ctor:copies")


def rule_x(repo, run):
    R = run.rule("C15.R7", "the Lua emitter filters every declaration by its own wrap flag before grouping overloads "
                           "(C18.R2)")
    from checks import c18
    from sa.report import import_rules
    import_rules(run, R, c18, repo, {"C18.R2"}, only=lambda c: "wrap_functions" in c)


def rule_r8(repo, run):
    R = run.rule("C15.R8", "a declaration's wrap flags are read from its options *after* its own `options:` were merged in; the "
                           "emitters descend into a child namespace on its wrap flag alone; `--option wrap_x=false` is a "
                           "boolean (C14.R5)")
    am = repo.module("ast")
    n = 0
    for q, fn in sorted(am.functions().items()):
        flags = [a for a in ast.walk(fn) if isinstance(a, ast.Assign) and isinstance(a.value, ast.Call)
                 and pyflow.is_name(a.value.func, "WrapFlags") and "self.options" in am.seg(a.value)
                 and str(am.seg(a.targets[0])) == "self.wrap"]
        merges = [c for c in ast.walk(fn) if isinstance(c, ast.Call) and str(am.seg(c.func)) == "self.options.update"]
        if not flags or not merges:
            continue
        n += 1
        run.check(R, "ast.%s:wrap-after-options" % q, max(c.lineno for c in merges) < min(a.lineno for a in flags),
                  "self.wrap = WrapFlags(self.options) runs before the declaration's own `options:` are merged into "
                  "self.options: `wrap_fortran: false` on a class is ignored for the class itself (the same option on a block "
                  "around it works)", am.loc(flags[0]))
    run.floor(R, "node constructors that merge options and compute wrap flags", n, 5)
    k = 0
    for mn, cname, flag in (("wrapc", "Wrapc", "c"), ("wrapf", "Wrapf", "fortran"), ("wrapp", "Wrapp", "python"), ("wrapl", "Wrapl", "lua")):
        m = repo.module(mn)
        try:
            fn = m.func(cname + ".wrap_namespace")
        except Exception:
            continue
        for lp in ast.walk(fn):
            if not (isinstance(lp, ast.For) and isinstance(lp.target, ast.Name) and str(m.seg(lp.iter)).endswith(".namespaces")):
                continue
            child = lp.target.id
            for c in ast.walk(lp):
                if isinstance(c, ast.Call) and str(m.seg(c.func)) == "self.wrap_namespace":
                    k += 1
                    atoms = pyflow.path_atoms(c, stop=lp, seg=m.seg)
                    content = sorted(t for t, p in atoms if re.search(r"\.(functions|classes|enums|variables|typedefs|namespaces)\b", t))
                    run.check(R, "%s.%s.wrap_namespace:descend" % (mn, cname), not content,
                              "the emitter only descends into a child namespace when %s: a namespace without free functions of "
                              "its own still has classes and nested namespaces to wrap, and the other emitters write them"
                              % content, m.loc(c))
    run.floor(R, "recursive namespace descents", k, 3)
    from checks import c14
    from sa.report import import_rules
    import_rules(run, R, c14, repo, {"C14.R5"}, only=lambda c: ":bool " in c)


WRAPPER_LANG = {"wrapc": "c", "wrapf": "fortran", "wrapp": "python", "wrapl": "lua"}


def rule_r9(repo, run):
    R = run.rule("C15.R9", "every kind of declaration that has wrap flags of its own (ast.py: `self.wrap = WrapFlags(self.options)`) "
                           "is filtered by them where it is written: an emitter `wrap_<kind>` is called under a test of the "
                           "declaration's flag for that wrapper (or starts with one), and functions generated on behalf of a "
                           "declaration (getter / setter of a member variable) take its flags")
    am = repo.module("ast")
    kinds = {}
    for cname, cls in am.classes().items():
        if any(isinstance(a, ast.Assign) and ast.unparse(a.targets[0]) == "self.wrap" and "WrapFlags" in ast.unparse(a.value)
               for a in ast.walk(cls)):
            kinds[cname] = cls
    if not {"EnumNode", "VariableNode", "FunctionNode", "ClassNode"} <= set(kinds):
        raise AnalysisError("C15.R9: node classes with wrap flags not found (%s)" % sorted(kinds))
    n = 0
    # emitters for the kinds whose filter is not part of R5: enums and member variables
    EMITTERS = {"wrap_enum": "enum", "wrap_class_variable": "variable"}
    for mn, lang in sorted(WRAPPER_LANG.items()):
        m = repo.module(mn)
        for q, fn in sorted(m.functions().items()):
            for c in ast.walk(fn):
                if not (isinstance(c, ast.Call) and isinstance(c.func, ast.Attribute) and c.func.attr in EMITTERS
                        and pyflow.is_name(c.func.value, "self")):
                    continue
                kind = EMITTERS[c.func.attr]
                # which argument is the declaration: the loop variable of the enclosing loop over .enums / .variables
                decl = None
                for p_ in parent_chain(c):
                    if isinstance(p_, ast.For) and isinstance(p_.target, ast.Name) and \
                            any(pyflow.is_name(a, p_.target.id) for a in c.args):
                        decl = p_.target.id
                        break
                if decl is None:
                    continue      # a call for one given declaration (from a class): its caller's loop is the site
                n += 1
                flag = "%s.wrap.%s" % (decl, lang)
                atoms = pyflow.path_atoms(c, stop=fn, seg=ast.unparse)
                guards = set((ast.unparse(t), pol) for t, pol in pyflow.early_exit_guards(fn, c))
                ok = (flag, True) in atoms or (flag, True) in guards
                if not ok:
                    # the emitter itself starts with the test
                    callee = "%s.%s" % (q.rsplit(".", 1)[0], c.func.attr) if "." in q else c.func.attr
                    if m.has_func(callee):
                        cf = m.func(callee)
                        for st in cf.body[:6]:
                            if isinstance(st, ast.If) and (".wrap.%s" % lang) in ast.unparse(st.test) and st.body and \
                                    isinstance(st.body[-1], ast.Return):
                                ok = True
                run.check(R, "%s.%s:%s(%s):flag" % (mn, q, c.func.attr, decl), ok,
                          "%s is called for every %s of the container; `%s` is never tested: `options: {wrap_%s: false}` on the %s "
                          "has no effect" % (c.func.attr, kind, flag, lang, kind), m.loc(c))
    run.floor(R, "emitters called per enum / member variable", n, 4)
    # functions generated for a member variable
    gm = repo.module("generate")
    gs = gm.func("GenFunctions.add_var_getter_setter")
    made = [a for a in ast.walk(gs) if isinstance(a, ast.Assign) and isinstance(a.targets[0], ast.Name)
            and isinstance(a.value, ast.Call) and (pyflow.call_name(a.value) or "").endswith("add_function")]
    if len(made) < 2:
        raise AnalysisError("C15.R9: getter / setter creation in add_var_getter_setter not found")
    for k, a in enumerate(sorted(made, key=lambda a: a.lineno)):
        name = a.targets[0].id
        nxt = [b.lineno for b in made if b.lineno > a.lineno]
        end = min(nxt) if nxt else (gs.end_lineno or 10 ** 9)
        takes = False
        for x in ast.walk(gs):
            if not (a.lineno < getattr(x, "lineno", 0) <= end):
                continue
            if isinstance(x, ast.Call) and ast.unparse(x.func) == "%s.wrap.assign" % name and "var.wrap." in ast.unparse(x):
                takes = True
            if isinstance(x, ast.Assign) and ast.unparse(x.targets[0]).startswith("%s.wrap" % name) and "var.wrap" in ast.unparse(x.value):
                takes = True
        run.check(R, "generate.GenFunctions.add_var_getter_setter:%s#%d:flags-of-variable" % (name, k), takes,
                  "the %s of a member variable is created with the wrap flags of the class (add_function's defaults) and "
                  "never takes `var.wrap`: `options: {wrap_fortran: false}` on the variable has no effect"
                  % ("getter" if k == 0 else "setter"), gm.loc(a))



def rule_r10(repo, run):
    R = run.rule("C15.R10", "the files of a scope are named alike: the header and the implementation template of one level differ "
                            "only in the suffix field, and every per-class / per-namespace file name contains the scope path "
                            "({file_scope}), so that two scopes never share a file (the later one would overwrite the earlier "
                            "and --cfiles would name it twice)")
    am = repo.module("ast")
    fn = am.func("LibraryNode.default_options")
    tmpl = {}
    for key, val in pyflow.table_fields(fn):
        if key.endswith("_template") and "filename" in key and pyflow.const_str(val) is not None:
            tmpl[key] = (pyflow.const_str(val), val)
    if len(tmpl) < 8:
        raise AnalysisError("C15.R10: file name templates of LibraryNode.default_options not found (%d)" % len(tmpl))
    n = 0
    for key, (text, node) in sorted(tmpl.items()):
        if "_header_" in key:
            twin = key.replace("_header_", "_impl_")
            if twin in tmpl:
                n += 1
                a = re.sub(r"\{\w*suffix\}", "{suffix}", text)
                b = re.sub(r"\{\w*suffix\}", "{suffix}", tmpl[twin][0])
                run.check(R, "ast.LibraryNode.default_options:%s<->%s" % (key, twin), a == b,
                          "`%s` and `%s` name their files from different fields: header and implementation of one scope get "
                          "different stems (or two scopes the same implementation file)" % (text, tmpl[twin][0]), am.loc(tmpl[twin][1]))
        mo = re.search(r"filename_(class|namespace)_template$", key)
        if mo:
            n += 1
            run.check(R, "ast.LibraryNode.default_options:%s:scope" % key, "{file_scope}" in text,
                      "`%s` = `%s` does not contain {file_scope}: two %ss of the same name in different scopes are written to one "
                      "file" % (key, text, mo.group(1)), am.loc(node))
    run.floor(R, "file name templates compared", n, 6)


def rule_r11(repo, run):
    R = run.rule("C15.R11", "a file is written once per run: write_output_file looks the path up in a registry of the run "
                            "(a field of the Config) and refuses the second write before the file is opened")
    um = repo.module("util")
    fn = um.func("WrapperMixin.write_output_file")
    opens = [c for c in ast.walk(fn) if isinstance(c, ast.Call) and pyflow.is_name(c.func, "open")]
    if len(opens) != 1:
        raise AnalysisError("C15.R11: the open() of write_output_file was not found")
    guards = []
    for i in ast.walk(fn):
        if isinstance(i, ast.If) and i.lineno < opens[0].lineno and any(isinstance(x, ast.Raise) for st in i.body for x in ast.walk(st)) \
                and any(isinstance(c, ast.Compare) and isinstance(c.ops[0], ast.In) for c in ast.walk(i.test)):
            guards.append(i)
    per_run = False
    for a in ast.walk(fn):
        if isinstance(a, ast.Assign) and isinstance(a.targets[0], ast.Name) and "self.config" in ast.unparse(a.value):
            reg = a.targets[0].id
            if any(any(pyflow.is_name(y, reg) for y in ast.walk(g.test)) for g in guards):
                per_run = True
    for g in guards:
        if "self.config." in ast.unparse(g.test):
            per_run = True
    run.check(R, "util.WrapperMixin.write_output_file:written-once", bool(guards) and per_run,
              "nothing stops a second write of the same path in one run: a library and a class of the same name (or two scopes "
              "whose file name templates expand alike) share one file, the later wrappers replace the earlier and --cfiles names "
              "the file twice", um.loc(opens[0]))
    # the registry is created with the Config, i.e. once per run
    mm = repo.module("main")
    ci = mm.func("Config.__init__")
    fields = set(a.targets[0].attr for a in ast.walk(ci) if isinstance(a, ast.Assign) and isinstance(a.targets[0], ast.Attribute))
    used = set(re.findall(r"self\.config,\s*['\"](\w+)['\"]|self\.config\.(\w+)", ast.unparse(fn)))
    used = set(x for t in used for x in t if x)
    run.check(R, "main.Config.__init__:files-registry", bool(used & fields),
              "the registry write_output_file consults (%s) is not a field created in Config.__init__: it is not reset per run"
              % sorted(used), mm.loc(ci))


def rule_r12(repo, run):
    R = run.rule("C15.R12", "wrap flags are a function of the options: wherever the options of a cloned declaration are updated "
                            "(`X.options.update(...)`), the wrap flags of X are computed again from them")
    gm = repo.module("generate")
    n = 0
    for q, fn in sorted(gm.functions().items()):
        for c in ast.walk(fn):
            if not (isinstance(c, ast.Call) and isinstance(c.func, ast.Attribute) and c.func.attr == "update"
                    and isinstance(c.func.value, ast.Attribute) and c.func.value.attr == "options"
                    and isinstance(c.func.value.value, ast.Name)):
                continue
            obj = c.func.value.value.id
            # only clones: the object was made by .clone() in this function
            cloned = any(isinstance(a, ast.Assign) and pyflow.is_name(a.targets[0], obj) and isinstance(a.value, ast.Call)
                         and (pyflow.call_name(a.value) or "").endswith(".clone") for a in ast.walk(fn))
            if not cloned:
                continue
            n += 1
            redo = [a for a in ast.walk(fn) if isinstance(a, ast.Assign) and isinstance(a.targets[0], ast.Attribute)
                    and a.targets[0].attr == "wrap" and pyflow.is_name(a.targets[0].value, obj)
                    and "WrapFlags" in ast.unparse(a.value) and a.lineno > c.lineno]
            run.check(R, "generate.%s:%s.wrap-after-options" % (q, obj), bool(redo),
                      "`%s` changes the options of the clone `%s` and its wrap flags stay as clone() computed them from the "
                      "original's options: `wrap_python: false` (or true) given for this instantiation is ignored"
                      % (" ".join(ast.unparse(c).split())[:50], obj), gm.loc(c))
    run.floor(R, "option updates of clones", n, 2)


def run(repo, run, tier):
    P = Program(repo)
    rule_r1(repo, run)
    rule_r2(repo, run)
    rule_r3(repo, run, P)
    rule_r4(repo, run)
    rule_r5(repo, run)
    rule_r6(repo, run)
    rule_x(repo, run)
    rule_r8(repo, run)
    rule_r9(repo, run)
    rule_r10(repo, run)
    rule_r11(repo, run)
    rule_r12(repo, run)
    run.assumptions.append("the property's domain requests Fortran only together with C, so a test of the "
                           "Fortran flag is accepted as guard for switching the C flag on")
